"""C03 - a converged SCF result is self-consistent; failure is flagged; calls terminate."""
from __future__ import annotations

import multiprocessing as mp
from typing import Any, Dict, List

import numpy as np

from .. import esh, leanproj, mdh
from ..core import Ctx, f2b, b2f

MODULE = "PyseqmVerif.Properties.C03"
try:
    from .registry import THEOREMS_C03 as THEOREMS  # type: ignore
except Exception:  # pragma: no cover
    THEOREMS = []

META = {
    "technique": "Lean 4 state-machine invariant for the SCF convergence bookkeeping with arbitrary kernels (truthful sticky flag, bounded loop), spectral model of SP2 (range/monotonicity/aufbau, non-termination witness), matrix algebra for the aufbau density + recorded-trace correspondence of get_error / SP2 + residual probes on returned densities with a wall-clock bound",
    "level_text": "Theorems: for ANY numeric kernels, a molecule returned as converged passed |dE|<=eps, dm_err<=2eps, dm_elem<=15eps (diis<=50eps) at its last active iteration and is untouched afterwards; unconverged molecules are reported; the loop runs at most MAX_ITER iterations (constants regenerated from the code); the aufbau density of an orthonormal eigenbasis is symmetric, has trace 2 n_occ, is idempotent and commutes with F; SP2's polynomials preserve [0,1] and the order of occupations (so a stopped SP2 is the aufbau projector) and never stop when equal occupations straddle the Fermi level. Tied to the code by replaying recorded real get_error calls and SP2 spectra through the compiled model, and by checking every clause numerically on the densities returned by real calculations (solver x SP2 x eps x initial density x charge x padding lattice) inside a child process with a time bound. Translator tie: all 21 expressions in 7 files that bound the real orbitals of a padded matrix count 9 nsh + 4 nh + nhy (or 4 nh + nhy), and the element-class masks partition the supported elements (BasisTie); the s,p,d basis (PM6) is in the probe lattice.",
    "level_note": "Trusted: Lean kernel; harness; LAPACK eigh contract as theorem hypothesis; float residual sizes are observed, bounds are K*eps with K stated in the probe. KSA (scf_forward3) and Fermi_Q kernels are control-flow modelled only.",
    "design_ref": "DESIGN.md section 5 C03",
}


def _child(inp, q):
    try:
        q.put(_scf_eval(inp))
    except BaseException:
        import traceback
        q.put({"exc": traceback.format_exc()[-1500:]})


def _scf_eval(inp: Dict[str, Any]) -> Dict[str, Any]:
    import torch

    import seqm.basics as B
    import seqm.seqm_functions.scf_loop as S
    from seqm.seqm_functions.pack import pack as _pack_batch

    def _is_d(z):
        return (12 < z < 18) or (20 < z < 30) or (32 < z < 36) or (38 < z < 48) or (50 < z < 54) or (70 < z < 80) or z == 57

    def pack_d(X, species):
        # s,p,d basis (PM6): 9 slots per atom; the real orbitals are selected by index from the species (independent of the package's packd):
        # the order of the basis functions is irrelevant to every clause checked below
        rows = []
        for i in range(X.shape[0]):
            idx = []
            for a, z in enumerate(species[i].tolist()):
                idx += [9 * a + k for k in range(0 if z == 0 else 1 if z == 1 else 9 if _is_d(z) else 4)]
            ix = torch.tensor(idx, dtype=torch.long)
            rows.append(X[i][ix][:, ix])
        n = max(int(r_.shape[-1]) for r_ in rows)
        out = torch.zeros(len(rows), n, n, dtype=X.dtype)
        for i, r_ in enumerate(rows):
            out[i, : r_.shape[0], : r_.shape[1]] = r_
        return out

    def pack(X, nH, nHy):
        if inp["method"] == "PM6":
            return pack_d(X, mol_species[0])
        # per-molecule packing (independent of any batch shortcut inside the package's pack)
        rows = [_pack_batch(X[i:i + 1], nH[i:i + 1], nHy[i:i + 1])[0] for i in range(X.shape[0])]
        n = max(int(r_.shape[-1]) for r_ in rows)
        out = torch.zeros(len(rows), n, n, dtype=X.dtype)
        for i, r_ in enumerate(rows):
            out[i, : r_.shape[0], : r_.shape[1]] = r_
        return out

    if inp.get("max_iter"):
        S.MAX_ITER = int(inp["max_iter"])
    names = inp["names"]
    sp = esh.settings(method=inp["method"], eps=inp["eps"], converger=inp["converger"], sp2=inp.get("sp2"), uhf=inp.get("uhf", False), excited=inp.get("excited"),
                      **({"scf_backward": int(inp["scf_backward"])} if inp.get("scf_backward") else {}))
    cap = {}
    orig = B.elec_energy

    def w(P, F, Hcore, *a, **k):
        cap["P"], cap["F"], cap["H"] = P.detach().clone(), F.detach().clone(), Hcore.detach().clone()
        return orig(P, F, Hcore, *a, **k)
    B.elec_energy = w
    P0 = None
    kind = inp.get("init", "default")
    if kind != "default":
        # density of a neighbouring geometry / perturbed non-idempotent density
        s, x, ch, mu = esh.batch(names, pad_to=inp.get("pad_to"), pad_coord=inp.get("pad_coord", 0.0))
        rng = np.random.default_rng(inp.get("seed", 0))
        x2 = x + (s > 0)[..., None] * rng.normal(size=x.shape) * 0.03
        r_prev = esh.run(s, x2, sp, charges=ch, mult=(mu if inp.get("uhf") else None))
        P0 = torch.as_tensor(r_prev["dm"]).clone()
        if kind == "perturbed":
            noise = torch.as_tensor(rng.normal(size=tuple(P0.shape))) * 0.02
            nz = (P0.abs().sum(-1, keepdim=True) > 0) & (P0.abs().sum(-2, keepdim=True) > 0)
            P0 = P0 + 0.5 * (noise + noise.transpose(-1, -2)) * nz
    r = esh.run_named(names, sp, pad_to=inp.get("pad_to"), pad_coord=inp.get("pad_coord", 0.0), P0=P0)
    B.elec_energy = orig
    mol = r["_mol"]
    mol_species = [mol.species]
    nmol = len(names)
    bad: List[str] = []
    kinds = set()
    eps = float(inp["eps"])
    alpha = float(inp["converger"][1]) if inp["converger"][0] == 0 and len(inp["converger"]) > 1 else 0.0
    K = 1.0 / max(1e-3, 1.0 - alpha)
    if (inp.get("sp2") or [False])[0]:
        # SP2 purification stops at its own trace tolerance (clamped into [1e-7, 1e-3] by the package): part of the requested thresholds
        eps = max(eps, min(1e-3, max(1e-7, float(inp["sp2"][1]))))
    notconv = np.asarray(r["notconverged"], dtype=bool)
    uhf = bool(inp.get("uhf", False))
    tore = mol.const.tore.numpy()
    Zs = mol.species.numpy()
    nel = tore[Zs].sum(1) - np.array([esh.CHARGE.get(nm, 0) for nm in names])
    if not uhf:
        P, F, H = (cap[k] for k in ("P", "F", "H"))
        Pp = pack(P, mol.nHeavy, mol.nHydro).numpy()
        Fp = pack(F, mol.nHeavy, mol.nHydro).numpy()
        for m in range(nmol):
            if notconv[m]:
                continue
            nb, no = int(r["norb"][m]), int(r["nocc"][m])
            if inp["method"] == "PM6":
                # Molecule.norb counts 4 per heavy + 1 per hydrogen and leaves the d-atoms out (it is not what the PM6 solver uses): count the basis functions
                nb = sum(0 if z == 0 else 1 if z == 1 else 9 if _is_d(z) else 4 for z in mol.species[m].tolist())
            Pm, Fm = Pp[m][:nb, :nb], Fp[m][:nb, :nb]
            sym = np.abs(Pm - Pm.T).max()
            if sym > 1e-9:
                bad.append(f"mol{m}: density not symmetric ({sym:.2e})"); kinds.add("symmetric")
            tr = abs(np.trace(Pm) - nel[m])
            if tr > max(1e-8, 50 * eps * K):
                bad.append(f"mol{m}: trace differs from electron count by {tr:.2e}"); kinds.add("trace")
            idem = np.abs(0.25 * Pm @ Pm - 0.5 * Pm).max()
            if idem > max(2e-8, 400 * eps * K):
                bad.append(f"mol{m}: idempotency defect {idem:.2e}"); kinds.add("idempotent")
            com = np.abs(Fm @ Pm - Pm @ Fm).max()
            if com > max(1e-6, 4000 * eps * K):
                bad.append(f"mol{m}: commutator [F,P] {com:.2e}"); kinds.add("commutator")
            ev, C = np.linalg.eigh(0.5 * (Fm + Fm.T))
            gap = ev[no] - ev[no - 1] if 0 < no < nb else 1.0
            if gap > 1e-3:
                Pa = 2 * C[:, :no] @ C[:, :no].T
                rd = np.abs(Pa - Pm).max()
                if rd > max(1e-7, 2000 * eps * K / max(gap, 1e-2) * 0.05 + 400 * eps * K):
                    bad.append(f"mol{m}: re-diagonalised density differs by {rd:.2e}"); kinds.add("rediag")
            h = np.triu(H[m].numpy()) + np.triu(H[m].numpy(), 1).T
            ee = 0.5 * np.sum(P[m].numpy() * (h + F[m].numpy()))
            if abs(ee - r["Eelec"][m]) > 1e-9 * max(1.0, abs(ee)):
                bad.append(f"mol{m}: Eelec is not the functional of the returned density ({abs(ee - r['Eelec'][m]):.2e})"); kinds.add("energy")
            dq = abs(r["q"][m].sum() - esh.CHARGE.get(names[m], 0))
            if dq > max(1e-8, 50 * eps * K):
                bad.append(f"mol{m}: charges sum off by {dq:.2e}"); kinds.add("charge")
    else:
        P = r["dm"]
        Pt = torch.as_tensor(P)
        Pp = [pack(Pt[:, s_], mol.nHeavy, mol.nHydro).numpy() for s_ in range(2)]
        Fp = None
        if "F" in cap and cap["F"].dim() == 4:
            Fp = [pack(cap["F"][:, s_], mol.nHeavy, mol.nHydro).numpy() for s_ in range(2)]
        for m in range(nmol):
            if notconv[m]:
                continue
            nb = int(r["norb"][m])
            for s_ in range(2):
                Pm = Pp[s_][m][:nb, :nb]
                sym = np.abs(Pm - Pm.T).max()
                if sym > 1e-9:
                    bad.append(f"mol{m} spin{s_}: not symmetric"); kinds.add("symmetric")
                idem = np.abs(Pm @ Pm - Pm).max()
                if idem > max(2e-8, 400 * eps * K):
                    bad.append(f"mol{m} spin{s_}: spin density not idempotent ({idem:.2e})"); kinds.add("idempotent")
                no_s = int(np.asarray(r["nocc"])[m][s_])
                trs = abs(np.trace(Pm) - no_s)
                if trs > max(1e-8, 50 * eps * K):
                    bad.append(f"mol{m} spin{s_}: trace {np.trace(Pm):.6f} != number of spin-{s_} electrons {no_s}"); kinds.add("trace")
                # each spin density commutes with / is reproduced by its own Fock operator (same bounds as the restricted case)
                if Fp is not None:
                    Fm = Fp[s_][m][:nb, :nb]
                    com = np.abs(Fm @ Pm - Pm @ Fm).max()
                    if com > max(1e-6, 4000 * eps * K):
                        bad.append(f"mol{m} spin{s_}: commutator [F,P] {com:.2e} for a molecule reported converged at eps={eps:g}"); kinds.add("commutator")
                    ev, C = np.linalg.eigh(0.5 * (Fm + Fm.T))
                    gap = ev[no_s] - ev[no_s - 1] if 0 < no_s < nb else 1.0
                    if gap > 1e-3:
                        rd = np.abs(C[:, :no_s] @ C[:, :no_s].T - Pm).max()
                        if rd > max(1e-7, 2000 * eps * K / max(gap, 1e-2) * 0.05 + 400 * eps * K):
                            bad.append(f"mol{m} spin{s_}: re-diagonalised spin density differs by {rd:.2e}"); kinds.add("rediag")
            tr = abs(np.trace(P[m, 0]) + np.trace(P[m, 1]) - nel[m])
            if tr > 1e-7:
                bad.append(f"mol{m}: trace off by {tr:.2e}"); kinds.add("trace")
            dq = abs(r["q"][m].sum() - esh.CHARGE.get(names[m], 0))
            if dq > max(1e-7, 50 * eps * K):
                bad.append(f"mol{m}: charges sum off by {dq:.2e}"); kinds.add("charge")
    if not np.isfinite(r["Etot"][~notconv]).all():
        bad.append("non-finite energy for a molecule flagged converged"); kinds.add("finite")
    return {"bad": bad, "kinds": sorted(kinds), "notconverged": notconv.tolist()}


def probe_scf(inp: Dict[str, Any]) -> Dict[str, Any]:
    ctx = mp.get_context("fork")
    q = ctx.Queue()
    p = ctx.Process(target=_child, args=(inp, q))
    p.start()
    limit = float(inp.get("time_limit", 120.0))
    try:
        res = q.get(timeout=limit)
    except Exception:
        res = None
    if res is None:
        p.kill()
        p.join()
        fields = {"kinds": ["termination"], "method": inp["method"], "sp2": bool((inp.get("sp2") or [False])[0]), "converger": inp["converger"][0],
                  "padded": bool(inp.get("pad_to")), "has_anion": any(esh.CHARGE.get(n, 0) < 0 for n in inp["names"])}
        return {"ok": False, "observed": [f"call did not return within {limit:.0f} s"], "expected": "every call returns in bounded time", "predicate": "wall clock", "fields": fields}
    p.join(5)
    if "exc" in res and inp["converger"][0] == 3:
        fields = {"kinds": ["raises"], "method": inp["method"], "sp2": False, "converger": 3, "padded": bool(inp.get("pad_to")), "has_anion": any(esh.CHARGE.get(n, 0) < 0 for n in inp["names"])}
        return {"ok": False, "observed": [f"the KSA solver raises on this batch: {res['exc'].strip().splitlines()[-1][:160]}"], "expected": "a result or an explicit flag", "predicate": "", "fields": fields}
    if "exc" in res:
        raise RuntimeError(res["exc"])
    bad = list(res["bad"])
    kinds = set(res["kinds"])
    if inp.get("expect_flag") and not any(res["notconverged"]):
        bad.append(f"iteration cap {inp.get('max_iter')} hit but no molecule reported as not converged")
        kinds.add("flag")
    fields = {"kinds": sorted(kinds), "method": inp["method"], "sp2": bool((inp.get("sp2") or [False])[0]), "converger": inp["converger"][0],
              "padded": bool(inp.get("pad_to")), "has_anion": any(esh.CHARGE.get(n, 0) < 0 for n in inp["names"])}
    return {"ok": not bad, "observed": bad[:6], "expected": "converged => symmetric, trace, idempotent, commuting, self-reproducing density; E = E[P]; failure flagged; bounded time",
            "predicate": "residual bounds K*eps on the returned (dm, F, Eelec, q, notconverged)", "fields": fields}


PROBES = {"scf_selfconsistent": probe_scf}


def gen_cases(ctx: Ctx):
    rng = ctx.rng
    cases = []
    # corpus: SP2 on a zero-padded batch containing an anion (historical non-termination)
    cases.append({"names": ["ch4", "oh-"], "method": "AM1", "eps": 1e-7, "converger": [1], "sp2": [True, 1e-5], "pad_to": 5, "time_limit": 90})
    pool = ["h2", "h2o", "nh3", "ch4", "ch2o", "hcn", "co", "hf", "ch3cl", "h2s", "so2", "c2h4", "oh-", "nh4+", "hcl", "sih4"]
    methods = ["AM1", "MNDO", "PM3", "PM6_SP"]
    convs = [[0, 0.0], [0, 0.3], [0, 0.7], [1], [2], [1]]
    inits = ["default", "previous", "perturbed"]
    n = 90 if ctx.thorough else 22
    for i in range(n):
        k = int(rng.integers(1, 4))
        names = [str(v) for v in rng.choice(pool, size=k)]
        c = {"names": names, "method": methods[i % 4], "eps": float(10.0 ** -int(rng.integers(4, 12))), "converger": convs[i % 6], "init": inits[i % 3],
             "pad_to": max(len(esh.GEOMS[v][0]) for v in names) + int(rng.integers(0, 2)), "seed": int(rng.integers(0, 10**6))}
        if i % 7 == 6:
            c["sp2"] = [True, float(rng.choice([1e-4, 1e-6, 1e-8]))]
        cases.append(c)
    # the Krylov-subspace (KSA) solver: scf_converger = [3, {T_el, max_rank, err_threshold, k}] (known finding F29: it stops on the energy change alone)
    ksa = {"T_el": 1500, "max_rank": 3, "k": 4, "err_threshold": 0.0}
    cases.append({"names": [str(rng.choice(["h2o", "nh3", "ch2o"]))], "method": str(rng.choice(["AM1", "PM3"])), "eps": float(rng.choice([1e-8, 1e-10])), "converger": [3, ksa]})
    if ctx.thorough:
        cases.append({"names": ["ch4", "oh-"], "method": "AM1", "eps": 1e-7, "converger": [3, dict(ksa, T_el=300)]})
        cases.append({"names": ["h2o", "h2o"], "method": "MNDO", "eps": 1e-6, "converger": [3, ksa]})
    for nm, meth in ([("no", "AM1"), ("oh", "PM3"), ("o2", "MNDO")] if ctx.thorough else [("oh", "AM1")]):
        cases.append({"names": [nm], "method": meth, "eps": 1e-8, "converger": [1], "uhf": True})
    # unrestricted reference with the fixed-mixing solver (every solver x spin combination that the package accepts)
    cases.append({"names": ["oh"], "method": "AM1", "eps": 1e-8, "converger": [0, 0.3], "uhf": True})
    cases.append({"names": [str(rng.choice(["no", "o2", "oh"]))], "method": str(rng.choice(methods)), "eps": 1e-8, "converger": [0, float(rng.choice([0.0, 0.5]))], "uhf": True})
    # unrestricted x every kind of initial density (a perturbed start is perturbed independently in the two spin channels: a spin-broken
    # density, as left by a previous geometry of a radical or by a user-supplied guess) x thresholds
    ucases = [(["h2o", "hcn"], "MNDO", 1e-10, [0, 0.3], "perturbed"), (["oh"], "AM1", 1e-9, [1], "perturbed"), (["no", "h2o"], "PM3", 1e-8, [0, 0.3], "previous"),
              (["o2"], "MNDO", 1e-10, [1], "perturbed"), (["ch2o"], "AM1", 1e-11, [0, 0.5], "perturbed"), (["oh", "nh3"], "PM6_SP", 1e-9, [1], "perturbed")]
    for names, meth, e, conv, init in (ucases if ctx.thorough else ucases[:3]):
        cases.append({"names": names, "method": meth, "eps": e, "converger": conv, "uhf": True, "init": init, "seed": int(rng.integers(0, 10**6))})
    # other options switched on next to a tight requested threshold must not loosen it (excited states bring their own tolerance)
    for i, (names, meth, conv) in enumerate([(["ch2o"], "AM1", [1]), (["h2o"], "PM3", [0, 0.3]), (["hcn"], "MNDO", [2])][: (3 if ctx.thorough else 2)]):
        cases.append({"names": names, "method": meth, "eps": float(rng.choice([1e-10, 1e-11])), "converger": conv, "excited": {"n_states": 2, "method": ["cis", "rpa"][i % 2]}})
    # batch mates with equal orbital count but different heavy/hydrogen split, also as the ACTIVE subset left mid-SCF (H2 converges first)
    for names in (["ch4", "co"], ["h2", "ch4", "co"], ["so2", "c2h4"]):
        cases.append({"names": names, "method": str(rng.choice(methods)), "eps": 1e-9, "converger": [[1], [0, 0.2]][int(rng.integers(0, 2))], "pad_to": max(len(esh.GEOMS[v][0]) for v in names)})
    # s,p,d basis (PM6): closed shells only (the package rejects PM6 + open shell); d-atoms next to s,p atoms and hydrogens, alone and in batches, both density solvers
    # (fixed in every run: a d-atom, an s,p atom and hydrogens in one molecule - every block of the s,p,d packing is populated)
    cases.append({"names": [["ch3cl"], ["ch3cl", "h2s"]][ctx.seed % 2], "method": "PM6", "eps": 1e-8, "converger": [[1], [0, 0.3]][ctx.seed % 2], "pad_to": 5 + ctx.seed % 2})
    dpool = [["h2s"], ["hcl"], ["ch3cl"], ["sih4"], ["so2"], ["hcl", "h2s"], ["ch3cl", "h2s"], ["h2o", "h2s"], ["sih4", "ch4"]]
    for j in range(len(dpool) if ctx.thorough else 3):
        names = dpool[(j + 3 * ctx.seed) % len(dpool)] if not ctx.thorough else dpool[j]
        c = {"names": names, "method": "PM6", "eps": float(rng.choice([1e-7, 1e-9])), "converger": convs[int(rng.integers(0, 6))], "pad_to": max(len(esh.GEOMS[v][0]) for v in names) + int(rng.integers(0, 2))}
        if j % 2 == 0:
            c["sp2"] = [True, float(rng.choice([1e-5, 1e-7]))]
        cases.append(c)
    # the differentiable SCF modes run their own copies of the loops (implicit backward = 1, unrolled = 2): every solver they accept x mixing parameters
    bw = [(2, [0, 0.0]), (2, [0, 0.1]), (1, [0, 0.3]), (2, [0, 0.7]), (1, [1]), (2, [1]), (1, [2]), (2, [0, 0.3])]
    # (fixed in every run: the unrolled loop with a mixing parameter far from 1/2, where the weight of the old density matters most)
    cases.append({"names": [str(rng.choice(["h2o", "nh3", "ch2o"]))], "method": str(rng.choice(methods)), "eps": 1e-9, "converger": [0, 0.0], "scf_backward": 2, "init": "default"})
    for j in range(len(bw) if ctx.thorough else 3):
        mode, conv = bw[(j + 3 * ctx.seed) % len(bw)] if not ctx.thorough else bw[j]
        cases.append({"names": [str(v) for v in rng.choice(["h2o", "nh3", "ch2o", "hcn", "hf"], size=int(rng.integers(1, 3)))], "method": methods[j % 4], "eps": float(rng.choice([1e-7, 1e-9])),
                      "converger": conv, "scf_backward": mode, "init": inits[j % 3], "seed": int(rng.integers(0, 10**6))})
    # iteration cap must be reported
    cases.append({"names": ["so2", "ch2o"], "method": "AM1", "eps": 1e-11, "converger": [0, 0.5], "max_iter": 3, "expect_flag": True})
    cases.append({"names": ["c2h4"], "method": "PM3", "eps": 1e-11, "converger": [2], "max_iter": 2, "expect_flag": True})
    return cases


def corr_get_error(ctx: Ctx, drv):
    """record REAL get_error calls during real SCF runs and replay them through the Lean model"""
    import torch

    import seqm.seqm_functions.scf_loop as S

    rec = []
    orig = S.get_error

    def w(Pold, P, notconverged, matrix_size_sqrt, dm_err, dm_element_err, Eelec_new, err, Eelec, eps, diis_error=None, unrestricted=False):
        pre = dict(active=notconverged.clone(), Enew=Eelec_new.clone(), Eold=Eelec.clone(), dmerr=dm_err.clone(), dmel=dm_element_err.clone(), err=err.clone(),
                   diis=None if diis_error is None else diis_error.clone(), eps=float(eps))
        dP = P - Pold
        if unrestricted:
            dP = dP.sum(dim=1)
        pre["fresh_dm"] = torch.norm(dP, dim=(1, 2)) / matrix_size_sqrt
        pre["fresh_el"] = torch.amax(dP.abs(), dim=(1, 2))
        out = orig(Pold, P, notconverged, matrix_size_sqrt, dm_err, dm_element_err, Eelec_new, err, Eelec, eps, diis_error=diis_error, unrestricted=unrestricted)
        pre["out_nc"] = out[0].clone()
        pre["out_dmerr"] = dm_err.clone()
        pre["out_dmel"] = dm_element_err.clone()
        pre["out_err"] = err.clone()
        rec.append(pre)
        return out
    S.get_error = w
    try:
        for names, conv, meth in [(["h2o", "ch4", "h2"], [1], "AM1"), (["so2", "nh3"], [0, 0.4], "PM3"), (["ch2o", "hcn", "co"], [2], "MNDO")][: (3 if ctx.thorough else 2)]:
            esh.run_named(names, esh.settings(method=meth, eps=1e-8, converger=conv))
    finally:
        S.get_error = orig
    sel = rec if ctx.thorough else rec[:: max(1, len(rec) // 60)]
    for pre in sel:
        nmol = pre["active"].numel()
        hasd = 0 if pre["diis"] is None else 1
        toks = ["get_error", f2b(pre["eps"]), nmol, hasd]
        for m in range(nmol):
            toks += [int(pre["active"][m]), f2b(float(pre["Enew"][m])), f2b(float(pre["Eold"][m])), f2b(float(pre["err"][m])), f2b(float(pre["fresh_dm"][m])),
                     f2b(float(pre["fresh_el"][m])), f2b(float(pre["dmerr"][m])), f2b(float(pre["dmel"][m])), f2b(float(pre["diis"][m]) if hasd else 0.0)]
        out = drv.ask(*toks)
        ok = len(out) == 4 * nmol
        if ok:
            for m in range(nmol):
                o = out[4 * m: 4 * m + 4]
                ok = ok and int(o[0]) == int(pre["out_nc"][m]) and b2f(o[1]) == float(pre["out_dmerr"][m]) and b2f(o[2]) == float(pre["out_dmel"][m]) and b2f(o[3]) == float(pre["out_err"][m])
        ctx.corr_case("get_error(recorded)", {"eps": pre["eps"], "active": pre["active"].tolist(), "Enew-Eold": (pre["Enew"] - pre["Eold"]).tolist()},
                      out[:8], [int(v) for v in pre["out_nc"]], ok, nontrivial=bool(pre["active"].any()), stratum="diis" if hasd else "plain")


def _sp2_real(arg):
    import torch

    from seqm.seqm_functions.SP2 import SP2

    lams, nocc, eps = arg
    a = torch.diag(torch.as_tensor(lams)).unsqueeze(0)
    calls = {"n": 0}
    orig = torch.Tensor.matmul

    def cnt(self, other):
        calls["n"] += 1
        return orig(self, other)
    torch.Tensor.matmul = cnt
    try:
        out = SP2(a, torch.tensor([nocc]), eps, factor=1.0)[0].diagonal().numpy()
    finally:
        torch.Tensor.matmul = orig
    return calls["n"], out


def corr_sp2(ctx: Ctx, drv):
    """real SP2 on diagonal Fock matrices (its action on the spectrum) vs the compiled spectral model, incl. degenerate levels at the Fermi edge.
    Each real call runs in a child with a wall-clock bound: termination IS part of the property, a call that does not return is a failing input."""
    rng = ctx.rng
    n_it = 40 if ctx.thorough else 14
    for it in range(n_it):
        n = int(rng.integers(3, 10))
        lams = np.sort(rng.uniform(-30, 10, size=n))
        nocc = int(rng.integers(1, n))
        degenerate = it % 5 == 0
        if degenerate:
            lams[nocc - 1] = lams[nocc]  # degenerate pair straddling the Fermi level: the rule is never met, exit through the cap
        eps = float(rng.choice([1e-3, 1e-5, 1e-7, 1e-9]))
        inp = {"spectrum": lams.tolist(), "nocc": nocc, "eps": eps, "degenerate": degenerate}
        try:
            calls, out = mdh.call_with_timeout(_sp2_real, (lams, nocc, eps), 60.0)
        except mdh.CallTimeout:
            ctx.probe_case("sp2_terminates", inp, False, fields={"kinds": ["termination"], "degenerate": degenerate}, observed="SP2 did not return within 60 s on a diagonal matrix",
                           expected="every call returns in bounded time", predicate="wall clock")
            continue
        ctx.probe_case("sp2_terminates", inp, True, fields={"kinds": [], "degenerate": degenerate}, observed=f"{calls} purification steps", expected="returns", predicate="wall clock",
                       stratum="degenerate" if degenerate else "generic")
        hN, h1 = lams.max(), lams.min()
        x = (1.0 * hN - lams) / (hN - h1)
        ans = drv.ask("sp2_live", f2b(eps), nocc, n, *[f2b(v) for v in x])
        ok = len(ans) == 2 + n and int(ans[0]) == calls and all(b2f(o) == float(w) for o, w in zip(ans[2:], out))
        ctx.corr_case("SP2 (spectral action)", {"n": n, "nocc": nocc, "eps": eps, "degenerate": degenerate}, ans[:3], [calls] + out[:2].tolist(), ok,
                      stratum="degenerate" if degenerate else "generic")


def probe_sp2_terminates(inp):
    try:
        calls, out = mdh.call_with_timeout(_sp2_real, (np.array(inp["spectrum"]), inp["nocc"], inp["eps"]), 60.0)
        return {"ok": True, "observed": f"{calls} purification steps", "expected": "returns", "predicate": "wall clock", "fields": {"kinds": [], "degenerate": inp.get("degenerate")}}
    except mdh.CallTimeout:
        return {"ok": False, "observed": "SP2 did not return within 60 s on a diagonal matrix", "expected": "every call returns in bounded time", "predicate": "wall clock",
                "fields": {"kinds": ["termination"], "degenerate": inp.get("degenerate")}}


PROBES["sp2_terminates"] = probe_sp2_terminates


def run(ctx: Ctx):
    from ..translate import gen
    gen.regenerate(ctx, ["Constants", "LoopCensus", "Guards", "BasisCount"])
    leanproj.check_theorems(ctx, MODULE, THEOREMS)
    from .registry import THEOREMS_BASISTIE, THEOREMS_C03C
    # translator tie: every real-versus-padding orbital bound in the source (eigen-solver wrappers, SP2 padding protection, thermal occupations, guess, guard)
    leanproj.check_theorems(ctx, "PyseqmVerif.Properties.BasisTie", THEOREMS_BASISTIE)
    leanproj.check_theorems(ctx, "PyseqmVerif.Properties.C03c", THEOREMS_C03C)
    drv = leanproj.Driver()
    try:
        try:
            corr_get_error(ctx, drv)
            corr_sp2(ctx, drv)
        except Exception:
            import traceback
            ctx.obligation("correspondence adapters C03 ran", False, traceback.format_exc()[-1500:], kind="harness")
    finally:
        drv.close()
    cases = gen_cases(ctx)
    results = mdh.pmap(probe_scf, cases, timeout=1800)
    for c, r in zip(cases, results):
        if isinstance(r, Exception) or r is None:
            ctx.obligation("probe scf_selfconsistent evaluated", False, repr(r)[-1500:], kind="harness")
            continue
        ctx.probe_case("scf_selfconsistent", c, r["ok"], fields=r["fields"], observed=r["observed"], expected=r["expected"], predicate=r["predicate"],
                       stratum=f"{c['method']}/conv{c['converger'][0]}/{'sp2' if c.get('sp2') else 'diag'}/{c.get('init', 'default')}")
