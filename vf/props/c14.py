"""C14 - reported observables are mutually consistent."""
from __future__ import annotations

from typing import Any, Dict, List

import numpy as np

import contextlib
import io

from .. import esh, leanproj, mdh
from ..core import Ctx, f2b, b2f

MODULE = "PyseqmVerif.Properties.C14"
THEOREMS: List[str] = []  # filled from the registry below once the Lean module exists
try:
    from .registry import THEOREMS_C14 as THEOREMS  # type: ignore
except Exception:  # pragma: no cover
    pass

META = {
    "technique": "Lean 4 algebra over the model of the energy/charge/dipole assembly (index_add semantics, any number of pairs/atoms) + function-level correspondence + cross-observable identity probes on real calculations",
    "level_text": "Theorems: Etot = Eelec + sum of the molecule's pair core energies (+Eexc), Hf identity, gap = e[nocc]-e[nocc-1], charges sum to sum(Z_valence) - tr P, dipole translation law mu(R+t) = mu(R) + Q t, for any batch layout. The model functions are compared with the real total_energy/heat_formation/atomic_charges on random inputs (compiled Lean driver), and every identity is re-evaluated on the attributes of `molecule` after real calculations across methods, spins, charges, batches and active states. Translator tie (regenerated every run): total_energy, heat_formation, elec_energy_isolated_atom and the summands, reduction axes and factors of elec_energy (closed and open shell) are translated statement by statement and proved equal to the model definitions (ObsTie, rfl).",
    "level_note": "Trusted: Lean kernel; harness; float reductions compared to 1e-12 relative (sum order is torch's). 'e_mo are eigenvalues of the reported Fock operator' is validated numerically (LAPACK), tolerance tied to scf_eps. PM6 d-orbital dipole is not implemented in the package (skipped there).",
    "design_ref": "DESIGN.md section 5 C14",
}


def _capture_run(names, sp, **kw):
    import seqm.basics as B

    cap = {}
    orig = B.elec_energy

    def w(P, F, Hcore, *a, **k):
        cap["P"], cap["F"], cap["H"] = P.detach().clone(), F.detach().clone(), Hcore.detach().clone()
        return orig(P, F, Hcore, *a, **k)

    B.elec_energy = w
    try:
        r = esh.run_named(names, sp, **kw)
    finally:
        B.elec_energy = orig
    r["cap"] = cap
    return r


def probe_observables(inp: Dict[str, Any]) -> Dict[str, Any]:
    import torch

    from seqm.seqm_functions.constants import debye_to_AU, to_debye
    from seqm.seqm_functions.pack import pack

    names = inp["names"]
    sp = esh.settings(method=inp["method"], eps=inp.get("eps", 1e-9), converger=inp.get("converger", [1]), uhf=inp.get("uhf", False),
                      excited=inp.get("excited"), active_state=(inp.get("active_state", 0) if isinstance(inp.get("active_state", 0), int) else 0), sp2=inp.get("sp2"),
                      **(inp.get("sp_over") or {}))
    r = _capture_run(names, sp, pad_to=inp.get("pad_to"), pad_coord=inp.get("pad_coord", 0.0),
                     active=(inp["active_state"] if isinstance(inp.get("active_state"), list) else None), es_kwargs=inp.get("es_kwargs"))
    mol = r["_mol"]
    bad: List[str] = []
    nmol = len(names)
    uhf = bool(inp.get("uhf", False))
    eps = float(inp.get("eps", 1e-9))
    conv = ~np.asarray(r["notconverged"], dtype=bool)
    # 1. energy assembly
    eexc = np.zeros(nmol)
    act = inp.get("active_state", 0)
    if isinstance(act, list) and r["cis_energies"] is not None:
        # per-molecule active surfaces: ground-state members carry no excitation energy
        eexc = np.array([r["cis_energies"][m, a_ - 1] if a_ > 0 else 0.0 for m, a_ in enumerate(act)])
    elif act and r["cis_energies"] is not None:
        eexc = r["cis_energies"][:, act - 1]
    d = np.abs(r["Etot"] - (r["Eelec"] + r["Enuc"] + eexc))
    if (d > 1e-9 * np.maximum(1, np.abs(r["Etot"]))).any():
        bad.append(f"Etot != Eelec+Enuc(+Eexc): max diff {d.max():.3e}")
    # 2. heat of formation
    const = mol.const
    eheat = np.zeros(nmol)
    Zs = mol.species.numpy()
    for m in range(nmol):
        eheat[m] = float(sum(const.eheat[z] for z in Zs[m] if z > 0))
    d = np.abs(r["Hf"] - (r["Etot"] - r["Eiso"] + eheat))
    if (d > 1e-9 * np.maximum(1, np.abs(r["Hf"]))).any():
        bad.append(f"Hf != Etot - Eiso + eheat: max diff {d.max():.3e}")
    # 3. gap and ordering
    tol_e = max(1e-6, 200 * eps)
    if r["e_mo"] is not None and not uhf:
        for m in range(nmol):
            no, nb = int(r["nocc"][m]), int(r["norb"][m])
            e = r["e_mo"][m][:nb]
            if 0 < no < nb:
                g = e[no] - e[no - 1]
                if abs(g - r["e_gap"][m]) > 1e-10:
                    bad.append(f"gap[{m}] {r['e_gap'][m]} != LUMO-HOMO {g}")
            if (np.diff(e) < -1e-9).any():
                bad.append(f"e_mo[{m}] not ascending")
            # eigenvalues of the reported Fock operator
            if conv[m] and "F" in r["cap"]:
                F = r["cap"]["F"]
                Fp = pack(F, mol.nHeavy, mol.nHydro)[m][:nb, :nb].numpy()
                ev = np.linalg.eigvalsh(0.5 * (Fp + Fp.T))
                if np.abs(ev - e).max() > tol_e:
                    bad.append(f"e_mo[{m}] differ from eigenvalues of reported F by {np.abs(ev - e).max():.3e}")
    # 4. charges
    tore = const.tore.numpy()
    P = r["dm"]
    Ptot = P if P.ndim == 3 else P[:, 0] + P[:, 1]
    n = Zs.shape[1]
    qexp = tore[Zs] - np.stack([np.diag(Ptot[m]).reshape(n, 4).sum(1) for m in range(nmol)])
    if np.abs(qexp - r["q"]).max() > 1e-10:
        bad.append(f"q != Z_valence - block trace of dm: {np.abs(qexp - r['q']).max():.3e}")
    ch = np.array([esh.CHARGE.get(nm, 0) for nm in names], dtype=float)
    dq = np.abs(r["q"].sum(1) - ch)
    if (dq[conv] > max(1e-7, 10 * eps)).any():
        bad.append(f"sum of charges != molecular charge: {dq.max():.3e}")
    # 5. Eelec functional of the reported density (closed shell)
    if "P" in r["cap"] and not uhf:
        Pc, Fc, Hc = (r["cap"][k].numpy() for k in ("P", "F", "H"))
        for m in range(nmol):
            h = np.triu(Hc[m]) + np.triu(Hc[m], 1).T
            ee = 0.5 * np.sum(Pc[m] * (h + Fc[m]))
            if abs(ee - r["Eelec"][m]) > 1e-9 * max(1, abs(ee)):
                bad.append(f"Eelec[{m}] != 0.5*sum(P*(h+F)): {abs(ee - r['Eelec'][m]):.3e}")
    # 6. dipole translation law
    if r["dipole"] is not None and inp["method"] != "PM6":
        t = np.array(inp.get("shift", [0.7, -1.3, 2.1]))
        s, x, chh, mu = esh.batch(names, pad_to=inp.get("pad_to"), pad_coord=inp.get("pad_coord", 0.0))
        real = s > 0
        x2 = x.copy()
        x2[real] += t
        r2 = esh.run(s, x2, sp, charges=chh, mult=(mu if uhf else None))
        want = r["dipole"] + ch[:, None] * t[None, :] * to_debye * debye_to_AU
        dd = np.abs(r2["dipole"] - want).max(1)
        if (dd[conv] > max(1e-7, 100 * eps)).any():
            bad.append(f"dipole translation law violated by {dd.max():.3e}")
        # the dipole implied by the charges and the density: sum q_A R_A + hybrid(P); hybrid is translation invariant => checked above;
        # for diatomics/H-only molecules hybrid = 0 on H: check H2 exactly
        for m, nm in enumerate(names):
            if set(Zs[m][Zs[m] > 0]) == {1}:
                want_m = (r["q"][m][:, None] * x[m]).sum(0) * to_debye * debye_to_AU
                if np.abs(want_m - r["dipole"][m]).max() > 1e-10:
                    bad.append(f"dipole[{m}] of an all-hydrogen molecule != sum q_A R_A")
    return {
        "ok": not bad, "observed": bad[:6], "expected": "all cross-observable identities hold",
        "predicate": "Etot=Eelec+Enuc(+Eexc); Hf=Etot-Eiso+eheat; gap=LUMO-HOMO; e_mo=eig(F); q from dm, sum q = charge; Eelec=E[P]; mu(R+t)=mu(R)+Qt",
        "fields": {"checks_failed": sorted({b.split(" ")[0].split("[")[0] for b in bad}), "method": inp["method"], "uhf": uhf},
    }


def probe_second_call(inp: Dict[str, Any]) -> Dict[str, Any]:
    """the same Molecule object evaluated again at a moved/rotated geometry (what MD and optimisers do): the reported gap is still LUMO-HOMO
    of the reported orbital energies, which are still the (ascending) eigenvalues of the Fock operator"""
    import torch

    from seqm.ElectronicStructure import Electronic_Structure
    from seqm.Molecule import Molecule
    from seqm.seqm_functions.constants import Constants

    s, x, ch, mu = esh.batch(inp["names"])
    sp = esh.settings(method=inp["method"], eps=1e-10)
    rng = np.random.default_rng(inp["seed"])
    bad = []
    kinds = set()
    with contextlib.redirect_stdout(io.StringIO()):
        mol = Molecule(Constants(), sp, torch.as_tensor(x), torch.as_tensor(s))
        es = Electronic_Structure(sp)
        es(mol)
        for it in range(inp.get("ncalls", 2)):
            R = esh.random_rotation(rng) if inp.get("rotate", True) else np.eye(3)
            if inp.get("quarter_turn") and it == 0:
                R = np.array([[0.0, -1, 0], [1, 0, 0], [0, 0, 1]])
            xn = (x @ R.T + rng.normal(size=x.shape) * inp.get("jitter", 0.0)) * (s > 0)[..., None]
            with torch.no_grad():
                mol.coordinates.copy_(torch.as_tensor(xn))
            es(mol, P0=mol.dm)
            ref = esh.run(s, xn, esh.settings(method=inp["method"], eps=1e-10))
            e = mol.e_mo.detach().numpy()
            for m in range(len(inp["names"])):
                nb, no = int(mol.norb[m]), int(mol.nocc[m])
                g_true = float(np.sort(ref["e_mo"][m][:nb])[no] - np.sort(ref["e_mo"][m][:nb])[no - 1])
                if abs(float(mol.e_gap[m]) - g_true) > 1e-6:
                    bad.append(f"call {it + 2}, mol{m}: reported gap {float(mol.e_gap[m]):.6f} != LUMO-HOMO {g_true:.6f} of a fresh calculation at the same geometry"); kinds.add("gap")
                if np.abs(np.sort(e[m][:nb]) - np.sort(ref["e_mo"][m][:nb])).max() > 1e-6:
                    bad.append(f"call {it + 2}, mol{m}: reported orbital energies are not the Fock eigenvalues"); kinds.add("e_mo_values")
                if (np.diff(e[m][:nb]) < -1e-9).any():
                    bad.append(f"call {it + 2}, mol{m}: reported orbital energies are not in ascending order: {e[m][:nb].round(3).tolist()}"); kinds.add("e_mo_order")
    return {"ok": not bad, "observed": bad[:4], "expected": "gap = LUMO-HOMO of the reported ascending orbital energies on every call", "predicate": "",
            "fields": {"kinds": sorted(kinds), "method": inp["method"]}}


def probe_xl_observables(inp: Dict[str, Any]) -> Dict[str, Any]:
    """the XL-BOMD / KSA drivers report observables through their own energy class: along a trajectory the reported dipole must be the dipole of the
    REPORTED density matrix, the reported charges its block traces, and they must sum to the molecular charge"""
    import types

    import torch

    import seqm.MolecularDynamics as MD
    from seqm.Molecule import Molecule
    from seqm.seqm_functions.constants import Constants
    from seqm.seqm_functions.dipole import calc_ground_dipole

    k = inp.get("k", 4)
    sp = dict(method=inp.get("method", "AM1"), scf_eps=1e-9, scf_converger=[1], sp2=[False])
    outp = {"molid": [0], "prefix": "/nonexistent/x", "print every": 0, "checkpoint every": 0, "xyz": 0, "h5": {}}
    s, x, ch, mu = esh.batch(inp["names"])
    mol = Molecule(Constants(), sp, torch.as_tensor(x), torch.as_tensor(s), charges=torch.as_tensor(ch))
    if inp.get("ksa"):
        md = MD.KSA_XL_BOMD(xl_bomd_params={"k": k, "max_rank": 2, "err_threshold": 0.0, "T_el": 1500}, seqm_parameters=sp, timestep=0.5, Temp=500.0, output=outp)
    else:
        md = MD.XL_BOMD(xl_bomd_params={"k": k}, seqm_parameters=sp, timestep=0.5, Temp=500.0, output=outp)
    bad = []
    tore = mol.const.tore.numpy()
    with contextlib.redirect_stdout(io.StringIO()):
        torch.manual_seed(inp.get("seed", 1))
        md.initialize(mol)
        for i in range(inp.get("steps", 5)):
            md._do_integrator_step(i, mol, dict())
            rep = mol.dipole.detach().numpy().copy()
            shadow = types.SimpleNamespace(coordinates=mol.coordinates.detach(), species=mol.species, const=mol.const, parameters=mol.parameters, method=mol.method, dipole=None)
            for a_ in ("nmol", "molsize", "nHeavy", "nHydro", "Z", "maskd", "mask", "idxi", "idxj", "ni", "nj", "xij", "rij", "seqm_parameters"):
                if hasattr(mol, a_):
                    setattr(shadow, a_, getattr(mol, a_))
            calc_ground_dipole(shadow, mol.dm.detach())
            want = shadow.dipole.detach().numpy()
            d = float(np.abs(rep - want).max())
            if d > 1e-9:
                bad.append(f"step {i + 1}: reported dipole differs from the dipole of the reported density matrix by {d:.3e} a.u.")
                break
            P = mol.dm.detach().numpy()
            n = s.shape[1]
            qexp = tore[s] - np.stack([np.diag(P[m]).reshape(n, 4).sum(1) for m in range(len(inp["names"]))])
            if np.abs(qexp - mol.q.detach().numpy()).max() > 1e-9:
                bad.append(f"step {i + 1}: reported charges are not the block traces of the reported density")
                break
            if np.abs(mol.q.detach().numpy().sum(1) - ch).max() > 1e-6:
                bad.append(f"step {i + 1}: charges sum to {mol.q.detach().numpy().sum(1).tolist()} instead of {ch.tolist()}")
                break
    return {"ok": not bad, "observed": bad, "expected": "dipole and charges reported by the XL drivers are those of the reported density", "predicate": "",
            "fields": {"checks_failed": ["xl_dipole"] if bad else [], "method": inp.get("method", "AM1"), "uhf": False, "ksa": bool(inp.get("ksa"))}}


PROBES = {"xl_observables": probe_xl_observables, "observables": probe_observables, "second_call": probe_second_call}


def gen_cases(ctx: Ctx) -> List[Dict[str, Any]]:
    rng = ctx.rng
    cases: List[Dict[str, Any]] = []
    pool = ["h2", "h2o", "nh3", "ch4", "ch2o", "hcn", "co", "hf", "ch3cl", "h2s", "so2", "sih4", "c2h4", "oh-", "nh4+", "hcl", "ph3", "ch3f"]
    methods = ["AM1", "MNDO", "PM3", "PM6_SP"]
    n = 60 if ctx.thorough else 16
    for i in range(n):
        k = int(rng.integers(1, 4))
        names = [str(x) for x in rng.choice(pool, size=k, replace=True)]
        c = {"names": names, "method": methods[i % 4], "converger": [[0, 0.2], [1], [2]][i % 3], "eps": float(10.0 ** -int(rng.integers(7, 11))),
             "pad_to": (max(len(esh.GEOMS[x][0]) for x in names) + int(rng.integers(0, 3))), "pad_coord": float(rng.choice([0.0, 3.3, -17.0])),
             "shift": [float(v) for v in rng.normal(size=3) * 2]}
        cases.append(c)
    # open shells
    for i, (nm, meth) in enumerate([("no", "AM1"), ("oh", "PM3"), ("o2", "MNDO"), ("h2o", "AM1")][: (4 if ctx.thorough else 2)]):
        cases.append({"names": [nm], "method": meth, "uhf": True, "converger": [1], "eps": 1e-8})
    # excited active state
    cases.append({"names": ["ch2o"], "method": "AM1", "converger": [1], "eps": 1e-9, "excited": {"n_states": 3, "method": "cis"}, "active_state": 1})
    if ctx.thorough:
        cases.append({"names": ["h2o", "h2o"], "method": "PM3", "converger": [1], "eps": 1e-9, "excited": {"n_states": 2, "method": "rpa"}, "active_state": 2})
    # batches whose species rows are identical while the electron counts differ (same molecule, different charges): every per-molecule observable uses ITS occupation
    for names in ([["h2o", "h2o2+"], ["ch2o2+", "ch2o"]] if ctx.thorough else [[["h2o", "h2o2+"], ["ch2o2+", "ch2o"], ["h2o2+", "h2o", "h2o"]][ctx.seed % 3]]):
        cases.append({"names": names, "method": str(rng.choice(["AM1", "PM3", "MNDO"])), "converger": [[1], [2]][int(rng.integers(0, 2))], "eps": 1e-9})
    # one batch mixing ground-state and excited members (per-molecule active surfaces), on the evaluation paths that accept it: energy only and
    # back-propagated forces (the analytical excited-state gradient rejects a mixed batch loudly: "Active states must be >0")
    paths = [{"es_kwargs": {"do_force": False}}, {"sp_over": {"scf_backward": 1}}, {"sp_over": {"scf_backward": 2}}]
    for j in ([0, 1, 2] if ctx.thorough else [ctx.seed % 3, (ctx.seed + 1) % 3]):
        nm = [["ch2o", "ch2o"], ["h2o", "h2o", "h2o"]][j % 2]
        act = [[0, 2], [1, 0, 2]][j % 2]
        cases.append(dict({"names": nm, "method": ["AM1", "PM3"][j % 2], "converger": [1], "eps": 1e-9, "excited": {"n_states": 3, "method": "cis"}, "active_state": act}, **paths[j]))
    return cases


def corr_functions(ctx: Ctx, drv):
    """function-level correspondence: real total_energy / heat_formation / atomic_charges vs the Lean model"""
    import torch

    from seqm.ElectronicStructure import Electronic_Structure
    from seqm.seqm_functions.energy import heat_formation, total_energy

    rng = ctx.rng
    n = 120 if ctx.thorough else 40

    def rel_ok(a, b):
        a, b = np.asarray(a, float), np.asarray(b, float)
        return bool(np.all(np.abs(a - b) <= 1e-12 * np.maximum(1.0, np.maximum(np.abs(a), np.abs(b)))))

    for i in range(n):
        nmol = int(rng.integers(1, 5))
        npairs = int(rng.integers(0, 12))
        pm = np.sort(rng.integers(0, nmol, size=npairs))
        en = rng.normal(size=npairs) * 10
        ee = rng.normal(size=nmol) * 100
        Etot, Enuc = total_energy(nmol, torch.as_tensor(pm, dtype=torch.int64), torch.as_tensor(en), torch.as_tensor(ee))
        out = drv.ask("total_energy", nmol, npairs, *pm.tolist(), *[f2b(v) for v in en], *[f2b(v) for v in ee])
        ok = len(out) == 2 * nmol and rel_ok([b2f(t) for t in out[:nmol]], Etot.numpy()) and rel_ok([b2f(t) for t in out[nmol:]], Enuc.numpy())
        ctx.corr_case("total_energy", {"nmol": nmol, "pair_molid": pm.tolist(), "EnucAB": en.tolist(), "Eelec": ee.tolist()}, out[:4], Etot.tolist()[:4], ok, nontrivial=npairs > 0)
    for i in range(n // 2):
        nmol = int(rng.integers(1, 4))
        nat = int(rng.integers(nmol, 9))
        am = np.sort(np.concatenate([np.arange(nmol), rng.integers(0, nmol, size=nat - nmol)]))
        Etot = rng.normal(size=nmol) * 100
        Eiso = rng.normal(size=nat) * 50
        Z = rng.integers(1, 10, size=nat)
        import types as _t
        const = _t.SimpleNamespace(eheat=torch.as_tensor(rng.normal(size=20)))
        Hf, Es = heat_formation(const, nmol, torch.as_tensor(am), torch.as_tensor(Z), torch.as_tensor(Etot), torch.as_tensor(Eiso), flag=True)
        out = drv.ask("heat_formation", nmol, nat, *am.tolist(), *[f2b(v) for v in Etot], *[f2b(v) for v in Eiso], *[f2b(float(const.eheat[z])) for z in Z])
        ok = len(out) == 2 * nmol and rel_ok([b2f(t) for t in out[:nmol]], Hf.numpy()) and rel_ok([b2f(t) for t in out[nmol:]], Es.numpy())
        ctx.corr_case("heat_formation", {"nmol": nmol, "atom_molid": am.tolist()}, out[:3], Hf.tolist()[:3], ok)
        ne = int(rng.integers(2, 10))
        e = np.sort(rng.normal(size=ne))
        no = int(rng.integers(1, ne))
        out = drv.ask("gap_rhf", ne, no, *[f2b(v) for v in e])
        ctx.corr_case("gap (RHF)", {"n": ne, "nocc": no}, out, e[no] - e[no - 1], len(out) == 1 and out[0] not in ("bad-op", "raise") and b2f(out[0]) == float(e[no] - e[no - 1]))
    for i in range(n // 2):
        nat = int(rng.integers(1, 7))
        npa = int(rng.choice([1, 4]))
        tore = rng.integers(1, 8, size=nat).astype(float)
        pd = rng.uniform(0, 2, size=nat * npa)
        P = torch.diag(torch.as_tensor(pd)).unsqueeze(0)
        q = tore - Electronic_Structure.atomic_charges(P, n_orbital=npa).numpy()[0]
        out = drv.ask("charges", nat, npa, *[f2b(v) for v in tore], *[f2b(v) for v in pd])
        ok = len(out) == nat and rel_ok([b2f(t) for t in out], q)
        ctx.corr_case("atomic_charges", {"natoms": nat, "norb_per_atom": npa, "tore": tore.tolist(), "Pdiag": pd.tolist()}, out[:4], q.tolist()[:4], ok)


def run(ctx: Ctx):
    from ..translate import gen as _gen
    _gen.regenerate(ctx, ["ObsGen"])
    leanproj.check_theorems(ctx, MODULE, THEOREMS)
    from .registry import THEOREMS_OBSTIE
    # translator tie: total_energy, heat_formation, elec_energy_isolated_atom and the summands/axes/factors of elec_energy, as they stand in the source
    leanproj.check_theorems(ctx, "PyseqmVerif.Properties.ObsTie", THEOREMS_OBSTIE)
    drv = leanproj.Driver()
    try:
        try:
            corr_functions(ctx, drv)
        except Exception as e:  # adapter broke: a tie is broken, the probes below are the search
            import traceback
            ctx.obligation("correspondence adapters C14 ran", False, traceback.format_exc()[-1500:], kind="harness")
    finally:
        drv.close()
    cases = gen_cases(ctx)
    results = mdh.pmap(probe_observables, cases)
    sc_cases = [{"names": ["ch2o"], "method": "AM1", "seed": 1, "quarter_turn": True}, {"names": [str(ctx.rng.choice(["h2o", "nh3", "hcn", "so2"]))], "method": str(ctx.rng.choice(["AM1", "PM3", "MNDO"])),
                                                                                         "seed": int(ctx.rng.integers(0, 10**6)), "ncalls": 3, "jitter": 0.02}]
    for c, r in zip(sc_cases, mdh.pmap(probe_second_call, sc_cases)):
        if isinstance(r, Exception) or r is None:
            ctx.obligation("probe second_call evaluated", False, repr(r)[:1500], kind="harness")
            continue
        ctx.probe_case("second_call", c, r["ok"], fields=r["fields"], observed=r["observed"], expected=r["expected"], predicate=r["predicate"], stratum="second_call")
    xl_cases = [{"names": [["h2o"], ["ch2o"], ["oh-", "ch4"]][ctx.seed % 3], "k": int(ctx.rng.integers(3, 10)), "ksa": False, "seed": int(ctx.rng.integers(1, 999)), "method": str(ctx.rng.choice(["AM1", "PM3"]))},
                {"names": ["h2o", "nh3"], "k": 4, "ksa": True, "seed": int(ctx.rng.integers(1, 999))}]
    for c, r in zip(xl_cases, mdh.pmap(probe_xl_observables, xl_cases)):
        if isinstance(r, Exception) or r is None:
            ctx.obligation("probe xl_observables evaluated", False, repr(r)[-1500:], kind="harness")
            continue
        ctx.probe_case("xl_observables", c, r["ok"], fields=r["fields"], observed=r["observed"], expected=r["expected"], predicate=r["predicate"], stratum="ksa" if c["ksa"] else "xl")
    for c, r in zip(cases, results):
        if isinstance(r, Exception) or r is None:
            ctx.obligation("probe observables evaluated", False, repr(r)[:1500], kind="harness")
            continue
        ctx.probe_case("observables", c, r["ok"], fields=r["fields"], observed=r["observed"], expected=r["expected"], predicate=r["predicate"],
                       stratum=c["method"] + ("/uhf" if c.get("uhf") else "") + ("/exc" if c.get("excited") else ""))
