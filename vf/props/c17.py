"""C17 - surface hopping preserves norm, energy and per-trajectory isolation."""
from __future__ import annotations

from types import SimpleNamespace
from typing import Any, Dict, List

import numpy as np

from .. import esh, leanproj, mdh
from ..core import Ctx, b2f, f2b

MODULE = "PyseqmVerif.Properties.C17"
try:
    from .registry import THEOREMS_C17 as THEOREMS  # type: ignore
except Exception:  # pragma: no cover
    THEOREMS = []

META = {
    "technique": "Lean 4 algebra over the models of _propagate_electronic (RK4, interaction picture), _attempt_hop, _rescale_velocity_along_nac and the trivial-crossing relabel (norm conservation of the flow for any antisymmetric coupling, exact RK4 norm defect, probability bounds, energy conservation of the rescale with the smaller root, permutation criterion, row-wise isolation) + adversarial function-level correspondence and probes on the real routines",
    "level_text": "Theorems: for any antisymmetric coupling, energies and phases the modelled right-hand side conserves the total population (sum x dx + y dy = 0); for two states with constant coupling one RK4 step multiplies the norm^2 by exactly 1 - z^6/72 + z^8/576; hop probabilities lie in [0,1], the active entry is 0 and the row sum is <= 1; an accepted hop conserves kinetic + potential energy exactly, changes velocities only along d_A/m_A and uses the root of smaller magnitude; a frustrated hop returns the velocities unchanged; the scatter relabel is a permutation iff the index vector is a bijection (3-cycle witness: known finding F15); every modelled operation acts row by row except the batch-global sub-step count (isolation up to nsub). Tied to the code by comparing the three real routines with the compiled Float model on synthetic tensors (2-8 states, spikes, gaps 1e-4..5 eV, v.d = 0, hop energy of both signs) and by probing norm drift, energy conservation and batch isolation on the real routines. Round 2 (C17b): the batch bookkeeping of _detect_crossings (subset-of-subset index composition, three early exits, hold-off resets) is modelled executable and proved to act per trajectory (crossing_isolation), rows are involutions iff the assignment is; tied to the code by comparing the real routine with the compiled model on random batches with hold-off histories. Translator tie: the scalar part of _rescale_velocity_along_nac (rejection tests, discriminant, root choice) and its velocity update, translated from the source, are the model's rescaleAlpha with the live sign rule and applyAlpha (ScalarTie).",
    "level_note": "Trusted: Lean kernel; harness (light-weight SurfaceHoppingDynamics objects as in the repository's own tests). Partial: the N-state RK4 norm defect is validated (order estimate), not proved; known finding F15 (3-cycle relabel duplicates an amplitude); F16 (batch-global nsub) is a documented coupling below the integrator's local error.",
    "design_ref": "DESIGN.md section 5 C17",
}


def _dyn(nmol, nstates, dt=0.5):
    import torch

    from seqm.NonadiabaticDynamics import SurfaceHoppingDynamics

    class D(SurfaceHoppingDynamics):
        def __init__(self):
            pass
    dyn = D()
    dyn.timestep = dt
    dyn.damp = None
    dyn._nstates = nstates
    dyn._amp_phase = torch.zeros((nmol, nstates, 3), dtype=torch.float64)
    dyn._current_potential = None
    dyn._hop_integral = None
    dyn._apc_window = 2
    dyn._detect_crossings_flag = True
    dyn._eye_cache = {}
    dyn._arange_cache = {}
    dyn._perm_cost_buffers = {}
    dyn._trivial_zero_buffers = {}
    dyn._trivial_swap_buffers = {}
    dyn._hop_buffer = None
    dyn._active_states = torch.zeros((nmol,), dtype=torch.long)
    dyn.post_hop_holdoff = torch.zeros((nmol,), dtype=torch.long)
    dyn.prev_state = torch.full((nmol,), -1, dtype=torch.long)
    dyn._decohere_on_hop = False
    dyn._trivial_crossing_mask = None
    dyn.hop_log = []
    dyn._electronic_substeps = None
    return dyn


def _rand_amp(rng, nmol, n):
    import torch

    a = rng.normal(size=(nmol, n, 2))
    a /= np.sqrt((a ** 2).sum((1, 2), keepdims=True))
    th = rng.uniform(-np.pi, np.pi, size=(nmol, n, 1))
    return torch.as_tensor(np.concatenate([a, th], axis=2))


def _rand_nac(rng, nmol, n, scale, spike=None):
    A = rng.normal(size=(nmol, n, n)) * scale
    A = A - A.transpose(0, 2, 1)
    if spike is not None:
        A[0, 0, 1] += spike
        A[0, 1, 0] -= spike
    return A


def probe_norm(inp: Dict[str, Any]) -> Dict[str, Any]:
    """population norm drift vs sub-steps: 4th order; and exactly conserved to O(h^5) per step"""
    import torch

    rng = np.random.default_rng(inp["seed"])
    n, nmol = inp["nstates"], inp.get("nmol", 2)
    amp0 = _rand_amp(rng, nmol, n)
    E0 = torch.as_tensor(np.sort(rng.uniform(0, inp.get("gap", 2.0), size=(nmol, n)), axis=1))
    E1 = E0 + torch.as_tensor(rng.normal(size=(nmol, n)) * 0.02)
    D0 = torch.as_tensor(_rand_nac(rng, nmol, n, inp["coupling"], inp.get("spike")))
    D1 = torch.as_tensor(_rand_nac(rng, nmol, n, inp["coupling"], inp.get("spike")))
    defects = []
    z = inp["dt"] / inp["nsub"] * (np.abs(D0.numpy()).max() + np.abs(D1.numpy()).max()) / 2 * n
    asymptotic = z < 0.3
    # outside the asymptotic regime (coupling spikes) the routine's own adaptive sub-step rule applies (substeps=None)
    plan = (inp["nsub"], 2 * inp["nsub"]) if asymptotic else (None,)
    for nsub in plan:
        dyn = _dyn(nmol, n, dt=inp["dt"])
        dyn._amp_phase = amp0.clone()
        dyn._propagate_electronic({"energies": E0, "nac_dot": D0}, {"energies": E1, "nac_dot": D1}, substeps=nsub)
        pop = dyn.populations.numpy()
        defects.append(np.abs(pop.sum(1) - 1.0).max())
        hi = dyn._hop_integral.numpy()
    bad = []
    if asymptotic:
        # 4th-order scheme with time-dependent phases exp(i E t/hbar): the local norm defect is O(h^5) in the combined small
        # parameters z = |D| h and w = |E| h / hbar, and vanishes quadratically with the coupling
        from seqm.NonadiabaticDynamics import HBAR_EV_FS
        wph = float(max(E0.abs().max(), E1.abs().max())) * inp["dt"] / inp["nsub"] / HBAR_EV_FS
        bound = 50.0 * inp["nsub"] * z ** 2 * (z + wph) ** 3 + 2e-13
        if defects[0] > bound:
            bad.append(f"norm defect {defects[0]:.3e} exceeds the RK4 bound {bound:.2e} (z={z:.3f})")
        # order test only deep in the asymptotic regime (z < 0.1) where the leading h^4 term dominates: halving h must cut the defect by > 6
        if z < 0.1 and defects[0] > 1e-10 and defects[1] > defects[0] / 6.0:
            bad.append(f"norm defect does not shrink with sub-steps as a 4th-order scheme: {defects[0]:.2e} -> {defects[1]:.2e}")
    else:
        if defects[0] > 2e-2:
            bad.append(f"norm defect {defects[0]:.3e} with the adaptive sub-step rule on a coupling spike (z per fixed sub-step would be {z:.2f})")
    if np.abs(hi + hi.transpose(0, 2, 1)).max() > 1e-12 * max(1.0, np.abs(hi).max()):
        bad.append("hop integral is not antisymmetric")
    return {"ok": not bad, "observed": bad or [f"defects {defects}"], "expected": "norm preserved to integrator order", "predicate": "", "fields": {"kinds": ["norm"] if bad else [], "nstates": n}}


def probe_hop_probabilities(inp: Dict[str, Any]) -> Dict[str, Any]:
    import torch

    rng = np.random.default_rng(inp["seed"])
    n, nmol = inp["nstates"], inp.get("nmol", 6)
    dyn = _dyn(nmol, n)
    dyn._amp_phase = _rand_amp(rng, nmol, n)
    dyn._active_states = torch.as_tensor(rng.integers(0, n, size=nmol))
    H = rng.normal(size=(nmol, n, n)) * inp.get("scale", 0.5)
    H = H - H.transpose(0, 2, 1)
    dyn._hop_integral = torch.as_tensor(H)
    # recompute g as the routine does, through the routine itself: capture via torch.rand patch
    bad = []
    captured = {}
    orig_rand = torch.rand

    def fake_rand(*a, **k):
        captured["called"] = True
        return torch.as_tensor(np.full(nmol, inp.get("xi", 0.999999)))
    torch.rand = fake_rand
    try:
        tg = dyn._attempt_hop().numpy()
    finally:
        torch.rand = orig_rand
    pop = dyn.populations.numpy()
    act = dyn._active_states.numpy()
    g = np.clip(H[np.arange(nmol), act] / np.clip(pop[np.arange(nmol), act], 1e-10, None)[:, None], 0, None)
    gs = g.sum(1, keepdims=True)
    g = np.where(gs > 1, g / np.clip(gs, 1e-12, None), g)
    if (g < 0).any() or (g > 1 + 1e-12).any() or (g.sum(1) > 1 + 1e-12).any():
        bad.append("hop probabilities outside [0,1] / row sum > 1")
    if np.abs(g[np.arange(nmol), act]).max() != 0:
        bad.append("probability of hopping to the active state is non-zero")
    # target chosen = first j with cumsum >= xi
    cs = np.cumsum(g, 1)
    xi = inp.get("xi", 0.999999)
    want = np.array([int(np.argmax(c >= xi)) if (c >= xi).any() else -1 for c in cs])
    if not np.array_equal(want, tg):
        bad.append(f"hop targets {tg.tolist()} != cumulative-draw rule {want.tolist()}")
    if (tg == act).any():
        bad.append("hop to the active state itself")
    return {"ok": not bad, "observed": bad, "expected": "g in [0,1], row sum <= 1, cumulative draw", "predicate": "", "fields": {"kinds": ["probabilities"] if bad else []}}


def _rescale_case(rng, natom, mode, dE):
    import torch

    v = rng.normal(size=(1, natom, 3)) * 0.01
    d = rng.normal(size=(1, natom, 3))
    minv = 1.0 / rng.uniform(1, 20, size=(1, natom, 1))
    if mode == "orthogonal":
        # make v . d = 0 exactly: put v in atom 0 x only and d in atom 0 y only plus other atoms with zero velocity
        v[:] = 0.0
        d[0, 0, 0] = 0.0
        v[0, 0, 0] = 0.013
        v[0, 1:, :] = 0.0
    mol = SimpleNamespace(velocities=torch.as_tensor(v.copy()), mass_inverse=torch.as_tensor(minv.copy()))
    return mol, v, d, minv


def probe_rescale(inp: Dict[str, Any]) -> Dict[str, Any]:
    import torch

    from seqm.MolecularDynamics import CONSTANTS

    rng = np.random.default_rng(inp["seed"])
    natom = inp.get("natom", 3)
    dE = inp["dE"]
    mol, v, d, minv = _rescale_case(rng, natom, inp.get("mode", "generic"), dE)
    dyn = _dyn(1, 2)
    i, j = (0, 1) if inp.get("upward", True) else (1, 0)
    nac = {(0, 1): torch.as_tensor(d.copy())}
    ok = dyn._rescale_velocity_along_nac(nac, i, j, mol, dE, mol_index=0)
    v2 = mol.velocities.numpy()
    mass = 1.0 / minv
    ke0 = (0.5 * mass * v ** 2).sum() * CONSTANTS.KINETIC_ENERGY_SCALE
    ke1 = (0.5 * mass * v2 ** 2).sum() * CONSTANTS.KINETIC_ENERGY_SCALE
    bad = []
    kinds = set()
    dv = v2 - v
    dd = d if i < j else -d
    if ok:
        if abs((ke1 - ke0) + dE) > 1e-10 * max(1.0, abs(dE), ke0):
            bad.append(f"accepted hop does not conserve energy: dKE + dE = {(ke1-ke0)+dE:.3e} (dE={dE})"); kinds.add("energy")
        # change along d_A / m_A only
        u = dd * minv
        a = (dv * u).sum() / max((u * u).sum(), 1e-300)
        if np.abs(dv - a * u).max() > 1e-12 * max(1e-6, np.abs(dv).max()):
            bad.append("velocity change is not along the mass-weighted coupling vector"); kinds.add("direction")
        # smaller root
        vd = (v * dd).sum()
        d2m = (minv[..., 0] * (dd ** 2).sum(-1)).sum()
        rad = vd * vd - 2 * (dE / CONSTANTS.KINETIC_ENERGY_SCALE) * d2m
        if rad > 0:
            r1, r2 = (-vd + np.sqrt(rad)) / d2m, (-vd - np.sqrt(rad)) / d2m
            small = r1 if abs(r1) <= abs(r2) else r2
            if abs(a - small) > 1e-9 * max(abs(small), 1e-12) and abs(abs(r1) - abs(r2)) > 1e-12:
                bad.append(f"rescale used alpha={a:.6e}, the smaller-magnitude root is {small:.6e}"); kinds.add("root")
    else:
        if np.abs(dv).max() != 0.0:
            bad.append("frustrated hop changed the velocities"); kinds.add("frustrated")
        vd = (v * dd).sum()
        d2m = (minv[..., 0] * (dd ** 2).sum(-1)).sum()
        rad = vd * vd - 2 * (dE / CONSTANTS.KINETIC_ENERGY_SCALE) * d2m
        if rad > 1e-14 and d2m > 1e-12:
            bad.append("hop rejected although the kinetic energy along the coupling vector suffices"); kinds.add("frustrated")
    return {"ok": not bad, "observed": bad, "expected": "accepted hop conserves energy exactly along d/m with the smaller root; frustrated hop untouched", "predicate": "",
            "fields": {"kinds": sorted(kinds), "mode": inp.get("mode", "generic"), "dE_sign": int(np.sign(dE))}}


def probe_relabel(inp: Dict[str, Any]) -> Dict[str, Any]:
    import torch

    rng = np.random.default_rng(inp["seed"])
    n = len(inp["swap_to"])
    dyn = _dyn(1, n)
    dyn._amp_phase = _rand_amp(rng, 1, n)
    before = dyn._amp_phase.numpy().copy()
    dyn._active_states = torch.as_tensor([inp.get("active", 0)])
    dyn._trivial_crossing_mask = torch.as_tensor([inp["swap_to"]])
    dyn._hop_integral = None
    mol = SimpleNamespace(coordinates=torch.zeros(1, 1, 3), velocities=torch.zeros(1, 1, 3), force=torch.zeros(1, 1, 3), mass_inverse=torch.ones(1, 1, 1), Etot=torch.zeros(1))
    dyn._recompute_active_force = lambda m: None
    dyn._after_electronic_update(mol, torch.zeros(1, n), step=0)
    after = dyn._amp_phase.numpy()
    bad = []
    pops_b = sorted(((before[0, :, 0] ** 2 + before[0, :, 1] ** 2)).round(12).tolist())
    pops_a = sorted(((after[0, :, 0] ** 2 + after[0, :, 1] ** 2)).round(12).tolist())
    if pops_a != pops_b:
        bad.append(f"relabelling is not a permutation of the amplitudes: populations {pops_b} -> {pops_a}")
    perm = [s if s >= 0 else i for i, s in enumerate(inp["swap_to"])]
    if sorted(perm) == list(range(n)):
        for i in range(n):
            if not np.array_equal(after[0, perm[i]], before[0, i]):
                bad.append("amplitudes not moved according to the index vector")
                break
        if int(dyn._active_states[0]) != perm[inp.get("active", 0)]:
            bad.append("active index not relabelled with the amplitudes")
    return {"ok": not bad, "observed": bad, "expected": "relabelling permutes amplitudes and active index", "predicate": "",
            "fields": {"kinds": ["relabel"] if bad else [], "is_bijection": sorted(perm) == list(range(n))}}


def probe_isolation(inp: Dict[str, Any]) -> Dict[str, Any]:
    """what is done to trajectory 0 (incl. a coupling spike) must not change trajectory 1"""
    import torch

    rng = np.random.default_rng(inp["seed"])
    n = inp["nstates"]
    amp = _rand_amp(rng, 2, n)
    E0 = torch.as_tensor(np.sort(rng.uniform(0, 2, size=(2, n)), axis=1))
    E1 = E0 + 0.01
    D0 = _rand_nac(rng, 2, n, 0.05)
    D1 = _rand_nac(rng, 2, n, 0.05)
    outs = []
    for spike in (0.0, inp.get("spike", 30.0)):
        a0, a1 = D0.copy(), D1.copy()
        a1[0, 0, 1] += spike
        a1[0, 1, 0] -= spike
        dyn = _dyn(2, n, dt=inp.get("dt", 0.1))
        dyn._amp_phase = amp.clone()
        dyn._propagate_electronic({"energies": E0, "nac_dot": torch.as_tensor(a0)}, {"energies": E1, "nac_dot": torch.as_tensor(a1)}, substeps=inp.get("substeps"))
        outs.append((dyn._amp_phase[1].numpy().copy(), dyn._hop_integral[1].numpy().copy()))
    d = float(np.abs(outs[0][0][:, :2] - outs[1][0][:, :2]).max())
    bad = []
    # isolation up to the batch-global sub-step count: the two runs may use different nsub, whose effect is bounded by the RK4 local error
    tol = 1e-9 if inp.get("substeps") is None else 0.0
    if d > tol:
        bad.append(f"a coupling spike in trajectory 0 changes trajectory 1's amplitudes by {d:.2e}")
    return {"ok": not bad, "observed": bad or [f"cross-talk {d:.1e}"], "expected": "per-trajectory isolation", "predicate": "", "fields": {"kinds": ["isolation"] if bad else [], "fixed_substeps": inp.get("substeps") is not None}}


def _crossing_inputs(rng, nmol, n, nov):
    """per trajectory: orthonormal amplitude rows at the old geometry; at the new geometry the same rows slightly rotated, and for some
    trajectories two neighbouring states exchanged (a trivial crossing); random hold-off history"""
    ref = np.zeros((nmol, n, nov))
    tgt = np.zeros((nmol, n, nov))
    swapped = []
    for m in range(nmol):
        qm, _ = np.linalg.qr(rng.normal(size=(nov, nov)))
        ref[m] = qm[:n]
        g = rng.normal(size=(nov, nov)) * 0.02
        rot, _ = np.linalg.qr(np.eye(nov) + g - g.T)
        t = ref[m] @ rot
        swapped.append(-1)
        if rng.uniform() < 0.7:
            i = int(rng.integers(0, n - 1))
            t[[i, i + 1]] = t[[i + 1, i]]
            swapped[-1] = i
        tgt[m] = t
    hold = np.where(rng.uniform(size=nmol) < 0.45, rng.integers(1, 4, size=nmol), 0)
    prev = np.where(hold > 0, rng.integers(0, n, size=nmol), -1)
    active = rng.integers(0, n, size=nmol)
    for m in range(nmol):
        # the interesting histories: a trajectory right after a hop whose active state is one of the crossing pair (it is only probed)
        if swapped[m] >= 0 and rng.uniform() < 0.7:
            active[m] = swapped[m] + int(rng.integers(0, 2))
    nd0, nd1 = _rand_nac(rng, nmol, n, 0.05), _rand_nac(rng, nmol, n, 0.05)
    return ref, tgt, hold, prev, active, nd0, nd1


def _crossing_call(idx, n, ref, tgt, hold, prev, active, nd0, nd1, dyn=None):
    import torch

    idx = list(idx)
    dyn = dyn if dyn is not None else _dyn(len(idx), n)
    dyn._active_states = torch.as_tensor(active[idx], dtype=torch.long)
    dyn.post_hop_holdoff = torch.as_tensor(hold[idx], dtype=torch.long)
    dyn.prev_state = torch.as_tensor(prev[idx], dtype=torch.long)
    co = {"cis_amp": torch.as_tensor(ref[idx]), "nac_dot": torch.as_tensor(nd0[idx]).clone()}
    cn = {"cis_amp": torch.as_tensor(tgt[idx]), "nac_dot": torch.as_tensor(nd1[idx]).clone()}
    sw = dyn._detect_crossings(co, cn)
    sw = np.full((len(idx), n), -1) if sw is None else sw.numpy().copy()
    return sw, co["nac_dot"].numpy().copy(), cn["nac_dot"].numpy().copy(), dyn.post_hop_holdoff.numpy().copy()


def probe_crossing_isolation(inp: Dict[str, Any]) -> Dict[str, Any]:
    """trivial-crossing detection on a batch == the same detection on every trajectory alone; every returned row is an involution"""
    rng = np.random.default_rng(inp["seed"])
    nmol, n, nov = inp["nmol"], inp["nstates"], inp["nstates"] + 3
    bad, kinds, nswaps = [], set(), 0
    veteran = _dyn(nmol, n)      # ONE dynamics object used for every trial (as a run does step after step): its scratch buffers carry over
    for trial in range(inp.get("trials", 12)):
        args = _crossing_inputs(rng, nmol, n, nov)
        full = _crossing_call(range(nmol), n, *args)
        old = _crossing_call(range(nmol), n, *args, dyn=veteran)
        for what, a, b in (("swap map", old[0], full[0]), ("old coupling", old[1], full[1]), ("new coupling", old[2], full[2]), ("hold-off", old[3], full[3])):
            if not np.array_equal(a, b):
                bad.append(f"trial {trial}: {what} computed by a dynamics object that has already processed {trial} steps differs from a fresh object")
                kinds.add("crossing_history")
        for m in range(nmol):
            one = _crossing_call([m], n, *args)
            nswaps += int((one[0] >= 0).any())
            for what, a, b in (("swap map", full[0][m], one[0][0]), ("old coupling", full[1][m], one[1][0]), ("new coupling", full[2][m], one[2][0]), ("hold-off", full[3][m], one[3][0])):
                if not np.array_equal(a, b):
                    bad.append(f"trial {trial}: {what} of trajectory {m} differs in the batch ({np.asarray(a).tolist()}) from the stand-alone result ({np.asarray(b).tolist()}); hold-off history {args[2].tolist()}")
                    kinds.add("crossing_isolation")
            row = full[0][m]
            for i, j in enumerate(row):
                if j >= 0 and (row[j] != i or j == i):
                    bad.append(f"trial {trial}: swap map row {row.tolist()} of trajectory {m} is not an involution")
                    kinds.add("crossing_not_permutation")
    return {"ok": not bad, "observed": bad[:5] or [f"{nswaps} stand-alone detections with a swap"], "expected": "crossing detection acts per trajectory; the relabelling is a permutation", "predicate": "",
            "fields": {"kinds": sorted(kinds), "nmol": nmol}, "nontrivial": nswaps > 0}


def probe_hop_batch(inp: Dict[str, Any]) -> Dict[str, Any]:
    """the REAL orchestration of a hop step (`_after_electronic_update`) on a batch in which only SOME trajectories hop (so the position among the
    hoppers differs from the batch index) and every trajectory has its own energies: each accepted hop conserves that trajectory's total energy with
    its OWN gap, a rejected hop is genuinely frustrated for its own gap and leaves the velocities untouched, non-hopping trajectories are untouched"""
    import types

    import torch

    import seqm.MolecularDynamics as MD

    rng = np.random.default_rng(inp["seed"])
    nmol, n, nat = inp["nmol"], inp["nstates"], inp.get("natom", 3)
    KES = MD.CONSTANTS.KINETIC_ENERGY_SCALE
    bad, kinds, nacc, nfr = [], set(), 0, 0
    for trial in range(inp.get("trials", 10)):
        dyn = _dyn(nmol, n)
        dyn._trivial_crossing_mask = None
        dyn.step_offset = 0
        dyn._decohere_on_hop = bool(inp.get("decoherence", False))
        dyn._amp_phase = _rand_amp(rng, nmol, n)
        active = rng.integers(0, n, size=nmol)
        dyn._active_states = torch.tensor(active, dtype=torch.long)
        E = np.sort(rng.uniform(0.0, 3.0, size=(nmol, n)), axis=1) + rng.uniform(0, 1, size=(nmol, 1))
        target = np.array([int(rng.choice([t for t in range(n) if t != active[m]])) for m in range(nmol)])
        hops = rng.uniform(size=nmol) < 0.55
        hops[0] = False if nmol > 1 else hops[0]          # a non-hopper in front: position among hoppers != batch index
        tg = np.where(hops, target, -1)
        dyn._attempt_hop = lambda: torch.tensor(tg, dtype=torch.long)
        mass = rng.uniform(1.0, 16.0, size=(nmol, nat, 1))
        v0 = rng.normal(size=(nmol, nat, 3)) * 0.01
        mol = types.SimpleNamespace(coordinates=torch.zeros(nmol, nat, 3), velocities=torch.tensor(v0.copy()), mass_inverse=torch.tensor(1.0 / mass), mass=torch.tensor(mass),
                                    Etot=torch.zeros(nmol), force=torch.zeros(nmol, nat, 3), acc=torch.zeros(nmol, nat, 3), active_state=None)
        nacs = {}

        def nacr(molecule, pairs):
            out = {}
            for (s1, s2) in pairs:
                out[(s1 - 1, s2 - 1)] = torch.tensor(rng.normal(size=(nmol, nat, 3)) * float(10 ** rng.uniform(-1, 1)))
            nacs.update(out)
            return out
        dyn._compute_NACR_for_hop = nacr
        dyn._recompute_active_force = lambda molecule: None
        amp0 = dyn._amp_phase.numpy().copy()
        dyn._after_electronic_update(mol, torch.tensor(E), step=0)
        v1 = mol.velocities.numpy()
        new_active = dyn._active_states.numpy()
        amp1 = dyn._amp_phase.numpy()
        for m in range(nmol):
            pop = amp1[m][:, 0] ** 2 + amp1[m][:, 1] ** 2
            if not hops[m]:
                if not np.array_equal(amp0[m], amp1[m]):
                    bad.append(f"trial {trial}: amplitudes of the non-hopping trajectory {m} changed"); kinds.add("hop_isolation")
            elif dyn._decohere_on_hop:
                onehot = np.zeros(n)
                onehot[new_active[m]] = 1.0
                if np.abs(pop - onehot).max() > 1e-12:
                    bad.append(f"trial {trial}: decoherence on: after the hop attempt the populations of trajectory {m} are {pop.round(4).tolist()}, not the active state {int(new_active[m])}"); kinds.add("decoherence")
            elif not np.array_equal(amp0[m], amp1[m]):
                bad.append(f"trial {trial}: decoherence off: the hop attempt changed the amplitudes of trajectory {m}"); kinds.add("decoherence")
        for m in range(nmol):
            ke0 = float((0.5 * mass[m] * v0[m] ** 2).sum()) * KES
            ke1 = float((0.5 * mass[m] * v1[m] ** 2).sum()) * KES
            if not hops[m]:
                if not np.array_equal(v0[m], v1[m]) or new_active[m] != active[m]:
                    bad.append(f"trial {trial}: trajectory {m} did not hop but its velocities/state changed"); kinds.add("hop_isolation")
                continue
            dE = float(E[m, target[m]] - E[m, active[m]])
            key = (min(active[m], target[m]), max(active[m], target[m]))
            d = nacs[key][m].numpy() * (1.0 if active[m] < target[m] else -1.0)
            d2m = float(((1.0 / mass[m][:, 0]) * (d ** 2).sum(1)).sum())
            vd = float((v0[m] * d).sum())
            rad = vd * vd - 2.0 * (dE / KES) * d2m
            if new_active[m] == target[m]:
                nacc += 1
                if abs((ke1 - ke0) + dE) > 1e-9 * max(1.0, abs(dE)):
                    bad.append(f"trial {trial}: accepted hop of trajectory {m} (gap {dE:+.4f} eV) changes the kinetic energy by {ke1 - ke0:+.6f} eV: total energy off by {(ke1 - ke0) + dE:+.3e} eV (hoppers {np.nonzero(hops)[0].tolist()})")
                    kinds.add("hop_energy")
                if rad <= 0:
                    bad.append(f"trial {trial}: trajectory {m} hopped although its own gap makes the hop frustrated"); kinds.add("hop_decision")
            else:
                nfr += 1
                if not np.array_equal(v0[m], v1[m]):
                    bad.append(f"trial {trial}: frustrated hop of trajectory {m} changed its velocities"); kinds.add("hop_frustrated")
                if rad > 1e-14 and d2m > 1e-12:
                    bad.append(f"trial {trial}: hop of trajectory {m} rejected as frustrated although its own gap {dE:+.4f} eV allows it (discriminant {rad:.3e})"); kinds.add("hop_decision")
        if bad:
            break
    return {"ok": not bad, "observed": bad[:5] or [f"{nacc} accepted, {nfr} frustrated hops"], "expected": "per-trajectory energy conservation and decisions in a partially hopping batch", "predicate": "",
            "fields": {"kinds": sorted(kinds), "nmol": nmol}, "nontrivial": nacc > 0 and nfr >= 0}


PROBES = {"hop_batch": probe_hop_batch, "crossing_isolation": probe_crossing_isolation, "norm": probe_norm, "hop_probabilities": probe_hop_probabilities, "rescale": probe_rescale, "relabel": probe_relabel, "isolation": probe_isolation}


def gen_cases(ctx: Ctx):
    rng = ctx.rng
    cases = []
    n = 40 if ctx.thorough else 10
    for i in range(n):
        cases.append(("norm", {"seed": int(rng.integers(0, 10**6)), "nstates": int(rng.integers(2, 9)), "coupling": float(10 ** rng.uniform(-3, 0)), "dt": float(rng.choice([0.05, 0.1, 0.5])),
                               "nsub": int(rng.choice([4, 8, 16])), "gap": float(10 ** rng.uniform(-4, 0.7)), "spike": (float(rng.uniform(5, 40)) if i % 4 == 0 else None)}))
        cases.append(("hop_probabilities", {"seed": int(rng.integers(0, 10**6)), "nstates": int(rng.integers(2, 9)), "scale": float(10 ** rng.uniform(-2, 1)), "xi": float(rng.uniform(0, 1))}))
        cases.append(("rescale", {"seed": int(rng.integers(0, 10**6)), "natom": int(rng.integers(1, 6)), "dE": float(rng.choice([-1, 1]) * 10 ** rng.uniform(-4, 0.5)), "upward": bool(i % 2),
                                  "mode": "generic"}))
    # v.d = 0 with both signs of dE (the sign(0) edge)
    cases.append(("rescale", {"seed": 1, "natom": 3, "dE": -0.2, "mode": "orthogonal"}))
    cases.append(("rescale", {"seed": 2, "natom": 3, "dE": 0.2, "mode": "orthogonal"}))
    cases.append(("rescale", {"seed": 3, "natom": 2, "dE": -1e-3, "mode": "orthogonal", "upward": False}))
    # relabel: swaps, identity, and the cyclic assignment
    cases.append(("relabel", {"seed": 1, "swap_to": [1, 0, -1], "active": 0}))
    cases.append(("relabel", {"seed": 2, "swap_to": [-1, 2, 1, -1], "active": 2}))
    cases.append(("relabel", {"seed": 3, "swap_to": [2, -1, 0], "active": 1}))
    cases.append(("relabel", {"seed": 4, "swap_to": [1, 0, 1], "active": 0}))   # 3-cycle artefact of the assignment step (not an involution)
    cases.append(("relabel", {"seed": 5, "swap_to": [1, 2, 0], "active": 0}))   # a true 3-cycle (bijection)
    for i in range(6 if ctx.thorough else 2):
        cases.append(("hop_batch", {"seed": int(rng.integers(0, 10**6)), "nmol": int(rng.integers(2, 6)), "nstates": int(rng.integers(2, 6)), "natom": int(rng.integers(2, 5)), "trials": 20 if ctx.thorough else 10,
                                    "decoherence": bool(i % 2)}))
    for i in range(6 if ctx.thorough else 2):
        cases.append(("crossing_isolation", {"seed": int(rng.integers(0, 10**6)), "nmol": int(rng.integers(3, 6)), "nstates": int(rng.integers(3, 7)), "trials": 60 if ctx.thorough else 40}))
    for i in range(4 if ctx.thorough else 2):
        cases.append(("isolation", {"seed": int(rng.integers(0, 10**6)), "nstates": int(rng.integers(2, 6)), "substeps": [None, 8][i % 2], "spike": float(rng.uniform(10, 60))}))
    return cases


def _run_case(item):
    return PROBES[item[0]](item[1])


def corr_hop(ctx: Ctx, drv):
    """real _rescale_velocity_along_nac vs the Lean model (Float), adversarial strata"""
    import torch

    from seqm.MolecularDynamics import CONSTANTS

    rng = ctx.rng
    n = 60 if ctx.thorough else 20
    for it in range(n):
        natom = int(rng.integers(1, 5))
        mode = "orthogonal" if it % 5 == 0 else "generic"
        dE = float(rng.choice([-1, 1]) * 10 ** rng.uniform(-4, 0.5))
        mol, v, d, minv = _rescale_case(rng, natom, mode, dE)
        dyn = _dyn(1, 2)
        ok = dyn._rescale_velocity_along_nac({(0, 1): torch.as_tensor(d.copy())}, 0, 1, mol, dE, mol_index=0)
        v2 = mol.velocities.numpy().reshape(-1)
        # live code = repaired sign rule (model op hop_rescale_fixed; hop_rescale keeps the pre-repair torch.sign formula as regression evidence)
        toks = ["hop_rescale_fixed", natom, f2b(CONSTANTS.KINETIC_ENERGY_SCALE), f2b(dE)] + [f2b(t) for t in v.reshape(-1)] + [f2b(t) for t in d.reshape(-1)] + [f2b(t) for t in minv.reshape(-1)]
        out = drv.ask(*toks)
        good = len(out) == 1 + 3 * natom and int(out[0]) == int(bool(ok)) and all(abs(b2f(o) - w) <= 1e-13 * max(1e-6, abs(w)) for o, w in zip(out[1:], v2))
        ctx.corr_case("_rescale_velocity_along_nac", {"natom": natom, "mode": mode, "dE": dE}, out[:4], [int(bool(ok))] + v2[:3].tolist(), good, stratum=mode + ("/down" if dE < 0 else "/up"))


def corr_more(ctx: Ctx, drv):
    """_attempt_hop, the relabel scatter and _propagate_electronic vs the compiled model"""
    import torch

    from seqm.NonadiabaticDynamics import HBAR_EV_FS

    rng = ctx.rng
    n_it = 40 if ctx.thorough else 12
    for it in range(n_it):
        n = int(rng.integers(2, 9))
        # --- hop probabilities / cumulative draw
        dyn = _dyn(1, n)
        dyn._amp_phase = _rand_amp(rng, 1, n)
        act = int(rng.integers(0, n))
        dyn._active_states = torch.as_tensor([act])
        H = rng.normal(size=(1, n, n)) * float(10 ** rng.uniform(-2, 0.7))
        H = H - H.transpose(0, 2, 1)
        dyn._hop_integral = torch.as_tensor(H)
        xi = float(np.float32(rng.uniform(0.0, 1.0)))  # torch.rand(nmol) is float32
        orig_rand = torch.rand
        torch.rand = lambda *a, **k: torch.tensor([xi], dtype=torch.float32)
        try:
            tgt = int(dyn._attempt_hop()[0])
        finally:
            torch.rand = orig_rand
        amp = dyn._amp_phase.numpy()[0]
        out = drv.ask("hop_probs", n, act, f2b(xi), *[f2b(v) for v in amp[:, 0]], *[f2b(v) for v in amp[:, 1]], *[f2b(v) for v in H[0].reshape(-1)])
        ok = len(out) == 1 + n and int(out[0]) == tgt
        ctx.corr_case("_attempt_hop", {"n": n, "active": act, "xi": xi}, out[:3], tgt, ok, stratum=f"n={n}")
        # --- relabel by scatter (bijections and the non-bijective assignment artefact)
        if it % 3 == 0:
            swap = [-1] * n
            i, j = [int(v) for v in rng.choice(n, size=2, replace=False)]
            swap[i], swap[j] = j, i
            if it % 6 == 0 and n >= 3:
                k_ = [v for v in range(n) if v not in (i, j)][0]
                swap[k_] = swap[i]  # duplicate target: not a bijection
            dyn = _dyn(1, n)
            dyn._amp_phase = _rand_amp(rng, 1, n)
            before = dyn._amp_phase.numpy()[0].copy()
            dyn._active_states = torch.as_tensor([act])
            dyn._trivial_crossing_mask = torch.as_tensor([swap])
            dyn._hop_integral = None
            dyn._recompute_active_force = lambda m: None
            molns = SimpleNamespace(coordinates=torch.zeros(1, 1, 3), velocities=torch.zeros(1, 1, 3), force=torch.zeros(1, 1, 3), mass_inverse=torch.ones(1, 1, 1), Etot=torch.zeros(1))
            dyn._after_electronic_update(molns, torch.zeros(1, n), step=0)
            after = dyn._amp_phase.numpy()[0].reshape(-1)
            out = drv.ask("hop_relabel", n, act, *swap, *[f2b(v) for v in before.reshape(-1)])
            ok = len(out) == 1 + 3 * n and int(out[0]) == int(dyn._active_states[0]) and all(b2f(o) == float(w) for o, w in zip(out[1:], after))
            ctx.corr_case("trivial-crossing relabel (scatter)", {"n": n, "active": act, "swap_to": swap}, out[:4], [int(dyn._active_states[0])] + after[:3].tolist(), ok,
                          stratum="bijection" if sorted(s_ if s_ >= 0 else q for q, s_ in enumerate(swap)) == list(range(n)) else "non-bijective")
        # --- RK4 propagation
        if it % 2 == 0:
            nsub = int(rng.choice([1, 4, 8]))
            dt = float(rng.choice([0.05, 0.2, 0.5]))
            dyn = _dyn(1, n, dt=dt)
            dyn._amp_phase = _rand_amp(rng, 1, n)
            a0 = dyn._amp_phase.numpy()[0].copy()
            E0 = np.sort(rng.uniform(0, 3, size=(1, n)), axis=1)
            E1 = E0 + rng.normal(size=(1, n)) * 0.02
            D0 = _rand_nac(rng, 1, n, 0.1, spike=(20.0 if it % 8 == 0 else None))
            D1 = _rand_nac(rng, 1, n, 0.1)
            dyn._propagate_electronic({"energies": torch.as_tensor(E0), "nac_dot": torch.as_tensor(D0)}, {"energies": torch.as_tensor(E1), "nac_dot": torch.as_tensor(D1)}, substeps=nsub)
            a1 = dyn._amp_phase.numpy()[0]
            hi = dyn._hop_integral.numpy()[0].reshape(-1)
            out = drv.ask("rk4_propagate", n, nsub, f2b(dt), f2b(HBAR_EV_FS), *[f2b(v) for v in a0[:, 0]], *[f2b(v) for v in a0[:, 1]], *[f2b(v) for v in a0[:, 2]],
                          *[f2b(v) for v in E0[0]], *[f2b(v) for v in E1[0]], *[f2b(v) for v in D0[0].reshape(-1)], *[f2b(v) for v in D1[0].reshape(-1)])
            want = np.concatenate([a1[:, 0], a1[:, 1], a1[:, 2], hi])
            ok = len(out) == 3 * n + n * n and all(abs(b2f(o) - w) <= 1e-12 * max(1.0, abs(w)) for o, w in zip(out, want))
            ctx.corr_case("_propagate_electronic (RK4)", {"n": n, "nsub": nsub, "dt": dt}, [b2f(o) for o in out[:3]] if len(out) > 3 else out, want[:3].tolist(), ok, stratum=f"nsub={nsub}")
            # adaptive (batch-global) sub-step count
            out = drv.ask("rk4_nsub", 1, n, f2b(dt), *[f2b(v) for v in D0[0].reshape(-1)], *[f2b(v) for v in D1[0].reshape(-1)])
            dyn2 = _dyn(1, n, dt=dt)
            dyn2._amp_phase = _rand_amp(rng, 1, n)
            calls = {"n": 0}
            orig_bmm = torch.bmm

            def cnt(*a, **k):
                calls["n"] += 1
                return orig_bmm(*a, **k)
            torch.bmm = cnt
            try:
                dyn2._propagate_electronic({"energies": torch.as_tensor(E0), "nac_dot": torch.as_tensor(D0)}, {"energies": torch.as_tensor(E1), "nac_dot": torch.as_tensor(D1)}, substeps=None)
            finally:
                torch.bmm = orig_bmm
            real_nsub = calls["n"] // 8  # 4 rhs evaluations x 2 bmm per sub-step
            ok = len(out) == 1 and int(out[0]) == real_nsub
            ctx.corr_case("adaptive sub-step count", {"n": n, "dt": dt, "spike": it % 8 == 0}, out, real_nsub, ok)


def corr_crossing(ctx: Ctx, drv):
    """real `_detect_crossings` on random batches (hold-off histories, swapped neighbouring states) vs the compiled Lean model `Crossing.detectBatch`:
    swap table, new hold-off counters and zeroed coupling pairs.  Overlaps are sent in thousandths (only comparisons with 0.9 matter; entries
    within 2e-3 of the threshold are avoided by construction of the generator); the permutation of every trajectory is the one the real
    `_compute_perm_from_overlap` returns for it."""
    import torch

    rng = ctx.rng
    n_cases = 60 if ctx.thorough else 20
    for it in range(n_cases):
        nmol, n = int(rng.integers(1, 6)), int(rng.integers(2, 7))
        nov = n + 3
        ref, tgt, hold, prev, active, nd0, nd1 = _crossing_inputs(rng, nmol, n, nov)
        ov = np.abs(np.einsum("nia,nja->nij", ref, tgt))
        if np.any(np.abs(ov - 0.9) < 2e-3):
            continue
        dyn = _dyn(nmol, n)
        # (copies: the routine resets hold-off counters in place)
        dyn._active_states = torch.tensor(np.array(active), dtype=torch.long)
        dyn.post_hop_holdoff = torch.tensor(np.array(hold), dtype=torch.long)
        dyn.prev_state = torch.tensor(np.array(prev), dtype=torch.long)
        co = {"cis_amp": torch.as_tensor(ref), "nac_dot": torch.as_tensor(nd0).clone()}
        cn = {"cis_amp": torch.as_tensor(tgt), "nac_dot": torch.as_tensor(nd1).clone()}
        # the windowed overlap exactly as the routine forms it, and the real permutation of every row
        idx = np.arange(n)
        win = np.abs(idx[:, None] - idx[None, :]) <= 2
        ovw = np.where(win[None], ov, 0.0)
        perms = dyn._compute_perm_from_overlap(torch.as_tensor(ovw)).numpy().astype(int)
        sw = dyn._detect_crossings(co, cn)
        toks = ["crossing", nmol, n, 900]
        for m in range(nmol):
            toks += [int(active[m]), int(hold[m]), int(prev[m])] + [int(round(v * 1000)) for v in ovw[m].reshape(-1)] + [int(v) for v in perms[m]]
        ans = drv.ask(*toks)
        # implementation side in the model's output format
        zero = sorted({(m, i, j) for m in range(nmol) for i in range(n) for j in range(n) if nd1[m, i, j] != 0.0 and float(cn["nac_dot"][m, i, j]) == 0.0})
        impl = (["none"] if sw is None else ["some"] + [str(int(v)) for v in sw.numpy().reshape(-1)]) + ["h"] + [str(int(v)) for v in dyn.post_hop_holdoff.numpy()] + \
               ["z", str(len(zero))] + [str(v) for t in zero for v in t]
        ok = list(ans) == impl
        ctx.corr_case("_detect_crossings (batch bookkeeping)", {"nmol": nmol, "n": n, "active": active.tolist(), "holdoff": hold.tolist(), "prev": prev.tolist()}, list(ans)[:40], impl[:40], ok,
                      stratum=("table" if sw is not None else "none") + ("+holdoff" if (hold > 0).any() else ""), nontrivial=sw is not None or bool((hold > 0).any()))


def run(ctx: Ctx):
    from ..translate import gen as _gen
    _gen.regenerate(ctx, ["HopAlpha"])
    leanproj.check_theorems(ctx, MODULE, THEOREMS)
    from .registry import THEOREMS_C17B, THEOREMS_C17C, THEOREMS_SCALARTIE
    # translator tie: the scalar part of the hop velocity rescaling, as it stands in the source, is the model's
    leanproj.check_theorems(ctx, "PyseqmVerif.Properties.ScalarTie", [t for t in THEOREMS_SCALARTIE if "Alpha" in t])
    leanproj.check_theorems(ctx, "PyseqmVerif.Properties.C17b", THEOREMS_C17B)
    leanproj.check_theorems(ctx, "PyseqmVerif.Properties.C17c", THEOREMS_C17C)
    drv = leanproj.Driver()
    try:
        try:
            corr_hop(ctx, drv)
            corr_more(ctx, drv)
            corr_crossing(ctx, drv)
        except Exception:
            import traceback
            ctx.obligation("correspondence adapters C17 ran", False, traceback.format_exc()[-1500:], kind="harness")
    finally:
        drv.close()
    cases = gen_cases(ctx)
    results = mdh.pmap(_run_case, cases, timeout=1200)
    for (name, c), r in zip(cases, results):
        if isinstance(r, Exception) or r is None:
            ctx.obligation(f"probe {name} evaluated", False, repr(r)[-1500:], kind="harness")
            continue
        ctx.probe_case(name, c, r["ok"], fields=r["fields"], observed=r["observed"], expected=r["expected"], predicate=r["predicate"], stratum=name, nontrivial=r.get("nontrivial", True))
