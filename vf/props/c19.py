"""C19 - non-interacting fragments are additive; the pair cutoff acts as documented."""
from __future__ import annotations

from typing import Any, Dict, List

import os

import numpy as np

from .. import esh, leanproj, mdh
from ..core import Ctx

MODULE = "PyseqmVerif.Properties.C19"
try:
    from .registry import THEOREMS_C19 as THEOREMS  # type: ignore
except Exception:  # pragma: no cover
    THEOREMS = []

META = {
    "technique": "Lean 4 algebra/analysis (cutoff semantics of the pair list, monopole cancellation identity, Klopman-Ohno kernel asymptotics) + Parser correspondence around the cutoff (C05 adapter) + long-range additivity probes 8-500 A",
    "level_text": "Theorems: with the default cutoff no real pair with |d|^2 < 1e20 is dropped and with a finite cutoff exactly the pairs with d^2 < c^2 (strict) are kept; Z_A Z_B g - Z_A P_B g - Z_B P_A g + P_A P_B g = q_A q_B g, so the 1/R terms cancel between neutral fragments; 0 <= 1/R - 1/sqrt(R^2+rho^2) <= rho^2/(2R^3). Tied to the code by the exact Parser correspondence with finite cutoffs and by probing E(A...B) - E(A) - E(B), fragment forces, charges and orbital energies for separations 8-500 A, random orientations, all methods, default and finite cutoffs. Round 2 (C19b): when every pair between two fragments is dropped (finite cutoff) the super-system decouples exactly - energy functional, Fock matrix and commutator are direct sums, the direct sum of fragment SCF solutions is a stationary point with energy E_A + E_B, and it is the (unique, under a common strict Fermi level) aufbau solution iff the fragments' occupied levels lie below each other's virtual levels (charge-transfer counterexample otherwise); forces on one fragment get no contribution from the other.",
    "level_note": "Trusted: Lean kernel; harness. Partial: the decay RATE for the SCF-relaxed system is validated (ratio test per doubling of R), the theorem covers the frozen-density interaction.",
    "design_ref": "DESIGN.md section 5 C19",
}


def _pair_geometry(a: str, b: str, R: float, seed: int):
    rng = np.random.default_rng(seed)
    za, xa = esh.geom(a)
    zb, xb = esh.geom(b)
    xa = (xa - xa.mean(0)) @ esh.random_rotation(rng).T
    xb = (xb - xb.mean(0)) @ esh.random_rotation(rng).T
    u = rng.normal(size=3)
    u /= np.linalg.norm(u)
    xb = xb + R * u
    # combined species must be sorted non-increasing: interleave by Z (stable)
    z = list(za) + list(zb)
    x = np.vstack([xa, xb])
    order = sorted(range(len(z)), key=lambda i: -z[i])
    frag = np.array([0] * len(za) + [1] * len(zb))[order]
    return [z[i] for i in order], x[order], frag, (za, xa), (zb, xb)


def _run(z, x, sp):
    return esh.run(np.array([z]), np.array([x]), sp)


def probe_fragments(inp: Dict[str, Any]) -> Dict[str, Any]:
    a, b, method = inp["a"], inp["b"], inp["method"]
    sp = esh.settings(method=method, eps=1e-11, converger=[1])
    Rs = inp.get("Rs", [8.0, 16.0, 32.0, 64.0, 128.0, 256.0, 500.0])
    bad: List[str] = []
    kinds = set()
    za, xa0 = esh.geom(a)
    zb, xb0 = esh.geom(b)
    deltas = []
    ra = rb = None
    for R in Rs:
        z, x, frag, (za_, xa), (zb_, xb) = _pair_geometry(a, b, R, inp.get("seed", 0))
        ra = _run(za_, xa, sp)
        rb = _run(zb_, xb, sp)
        rab = _run(z, x, sp)
        d = float(rab["Etot"][0] - ra["Etot"][0] - rb["Etot"][0])
        deltas.append(d)
        fa = rab["force"][0][frag == 0]
        dF = float(np.max(np.abs(fa - ra["force"][0])))
        dq = float(np.max(np.abs(rab["q"][0][frag == 0] - ra["q"][0])))
        env = (8.0 / R) ** 3
        if abs(d) > 0.2 * env + 1e-9:
            bad.append(f"R={R}: |E_AB-E_A-E_B| = {abs(d):.3e} exceeds the multipole envelope {0.2*env:.2e}")
            kinds.add("energy")
        # per-atom forces: partial charge x field of the other fragment's leading multipole (dipole: R^-3); only the NET fragment force falls off one power faster
        if dF > 0.2 * env + 2e-7:
            bad.append(f"R={R}: fragment force differs from isolated by {dF:.3e}")
            kinds.add("force")
        if dq > 0.05 * env + 1e-7:
            bad.append(f"R={R}: fragment charges differ from isolated by {dq:.3e}")
            kinds.add("charge")
        # orbital energies: union of the fragments' spectra
        nb = int(rab["norb"][0])
        eu = np.sort(np.concatenate([ra["e_mo"][0][: int(ra["norb"][0])], rb["e_mo"][0][: int(rb["norb"][0])]]))
        de = float(np.max(np.abs(np.sort(rab["e_mo"][0][:nb]) - eu)))
        if de > 0.5 * (8.0 / R) ** 2 + 1e-6:
            bad.append(f"R={R}: orbital energies differ from the fragments' by {de:.3e}")
            kinds.add("e_mo")
    # decay at least as fast as 1/R^3: per doubling the deviation drops by >= ~4 while above noise
    for i in range(1, len(Rs)):
        # (asymptotic regime only: below ~60 A competing multipoles of opposite sign may cross)
        if Rs[i - 1] >= 60.0 and abs(deltas[i - 1]) > 5e-8 and Rs[i] / Rs[i - 1] >= 1.9:
            if abs(deltas[i]) > abs(deltas[i - 1]) / 4.0 + 2e-9:
                bad.append(f"deviation decays too slowly: {deltas[i-1]:.3e} at {Rs[i-1]} -> {deltas[i]:.3e} at {Rs[i]}")
                kinds.add("decay")
    # default cutoff drops nothing at 500 A: the residual interaction follows the same power law (not exactly zero for polar pairs)
    if abs(deltas[-2]) > 2e-8:
        ratio = deltas[-1] / deltas[-2] * (Rs[-1] / Rs[-2]) ** 3
        if not (0.5 < ratio < 2.0):
            bad.append(f"interaction at {Rs[-1]} A does not continue the R^-3 law of {Rs[-2]} A (ratio {ratio:.2f}): pairs dropped?")
            kinds.add("cutoff_default")
    # finite cutoff smaller than the separation: exactly additive
    R = 12.0
    z, x, frag, (za_, xa), (zb_, xb) = _pair_geometry(a, b, R, inp.get("seed", 0))
    spc = dict(sp, pair_outer_cutoff=6.0)
    rab = _run(z, x, spc)
    ra = _run(za_, xa, spc)
    rb = _run(zb_, xb, spc)
    d = abs(float(rab["Etot"][0] - ra["Etot"][0] - rb["Etot"][0]))
    if d > 1e-8:
        bad.append(f"finite cutoff 6 A < separation 12 A: E_AB - E_A - E_B = {d:.3e} (pairs beyond the cutoff not ignored)")
        kinds.add("cutoff_finite")
    # the cutoff is a SPHERE: a fragment placed along the body diagonal at a distance between c and sqrt(3) c (every Cartesian component of every
    # inter-fragment vector below c, every distance above c) is still beyond it
    c_ = 9.0
    za2, xa2 = esh.geom(a)
    zb2, xb2 = esh.geom(b)
    xa2 = xa2 - xa2.mean(0)
    xb2 = xb2 - xb2.mean(0) + np.array([1.0, 1.0, 1.0]) / np.sqrt(3.0) * 13.5
    zz = list(za2) + list(zb2)
    xx = np.vstack([xa2, xb2])
    order = sorted(range(len(zz)), key=lambda i: -zz[i])
    dmin = min(np.linalg.norm(p_ - q_) for p_ in xa2 for q_ in xb2)
    if dmin > c_:
        spd = dict(sp, pair_outer_cutoff=c_)
        e_ab = float(_run([zz[i] for i in order], xx[order], spd)["Etot"][0])
        e_a = float(_run(za2, xa2, spd)["Etot"][0])
        e_b = float(_run(zb2, xb2, spd)["Etot"][0])
        if abs(e_ab - e_a - e_b) > 1e-8:
            bad.append(f"cutoff {c_} A, fragment on the body diagonal with all inter-fragment distances >= {dmin:.2f} A: E_AB - E_A - E_B = {e_ab - e_a - e_b:.3e} (pairs beyond the cutoff kept)")
            kinds.add("cutoff_sphere")
    spc2 = dict(sp, pair_outer_cutoff=40.0)
    d2 = abs(float(_run(z, x, spc2)["Etot"][0] - _run(z, x, sp)["Etot"][0]))
    if d2 > 1e-9:
        bad.append(f"cutoff 40 A > all distances changes the energy by {d2:.3e}")
        kinds.add("cutoff_finite")
    return {"ok": not bad, "observed": bad[:6], "expected": "E_AB -> E_A + E_B at least as fast as R^-3; fragment properties -> isolated; cutoff semantics",
            "predicate": "envelope + ratio tests; exact additivity beyond a finite cutoff", "fields": {"kinds": sorted(kinds), "method": method, "a": a, "b": b},
            "deltas": deltas}


def probe_fragments_batched(inp: Dict[str, Any]) -> Dict[str, Any]:
    """the super-system and its two fragments evaluated in ONE zero-padded batch [AB, A, B] (rows of different heavy/hydrogen composition), restricted
    and unrestricted: the interaction energy at large separation is that of the one-by-one evaluation, and tiny"""
    a, b, method, R = inp["a"], inp["b"], inp["method"], inp.get("R", 30.0)
    z, x, frag, (za_, xa), (zb_, xb) = _pair_geometry(a, b, R, inp.get("seed", 0))
    n = len(z)
    sp_ = np.zeros((3, n), dtype=np.int64)
    xx = np.zeros((3, n, 3))
    sp_[0], xx[0] = z, x
    sp_[1, : len(za_)], xx[1, : len(za_)] = za_, xa
    sp_[2, : len(zb_)], xx[2, : len(zb_)] = zb_, xb
    bad, kinds = [], set()
    for uhf in ([False, True] if inp.get("uhf", True) else [False]):
        sp = esh.settings(method=method, eps=1e-10, converger=[1], uhf=uhf)
        mult = np.ones(3) if uhf else None
        rb_ = esh.run(sp_, xx, sp, mult=mult)
        one = [float(_run(zz, xq, sp)["Etot"][0]) if not uhf else float(esh.run(np.array([zz]), np.array([xq]), sp, mult=np.ones(1))["Etot"][0]) for zz, xq in ((z, x), (za_, xa), (zb_, xb))]
        d_batch = float(rb_["Etot"][0] - rb_["Etot"][1] - rb_["Etot"][2])
        d_one = one[0] - one[1] - one[2]
        env = (8.0 / R) ** 3
        lab = "UHF" if uhf else "RHF"
        if abs(d_batch) > 0.2 * env + 1e-8:
            bad.append(f"{lab}: in the batch [AB, A, B] E_AB - E_A - E_B = {d_batch:.3e} eV at R = {R} A (one-by-one: {d_one:.3e})"); kinds.add("batched_energy")
        for i_, lab2 in enumerate(("AB", a, b)):
            if abs(float(rb_["Etot"][i_]) - one[i_]) > 1e-7:
                bad.append(f"{lab}: E({lab2}) in the batch differs from the one-by-one value by {abs(float(rb_['Etot'][i_]) - one[i_]):.3e} eV"); kinds.add("batched_energy")
    return {"ok": not bad, "observed": bad[:5], "expected": "additivity also when super-system and fragments share a batch", "predicate": "", "fields": {"kinds": sorted(kinds), "method": method, "a": a, "b": b}}


def probe_cutoff_md(inp: Dict[str, Any]) -> Dict[str, Any]:
    """finite cutoff along a trajectory: two fragments fly apart and cross the cutoff during the run; at the last step the engine's energy and forces must be
    those of a fresh single point at the final geometry with the same cutoff (exactly the pairs beyond it ignored, at every step)"""
    from . import c08

    a, b, method = inp["a"], inp["b"], inp["method"]
    cut, R0 = inp.get("cutoff", 10.0), inp.get("R0", 7.5)
    z, x, frag, _, _ = _pair_geometry(a, b, R0, inp.get("seed", 0))
    name = f"_c19_{a}_{b}"
    esh.GEOMS[name] = (list(z), x.tolist())
    # opposite velocities along the inter-fragment axis (zero net momentum and angular momentum about the axis)
    ca, cb = x[frag == 0].mean(0), x[frag == 1].mean(0)
    u = (cb - ca) / np.linalg.norm(cb - ca)
    from seqm.seqm_functions.constants import Constants
    mass = Constants().mass.numpy()[np.array(z)]
    ma, mb = mass[frag == 0].sum(), mass[frag == 1].sum()
    vrel = inp.get("vrel", 0.7)                     # A/fs: crosses the cutoff within the run
    v = np.where((frag == 1)[:, None], u * vrel * ma / (ma + mb), -u * vrel * mb / (ma + mb))
    steps = inp.get("steps", 14)
    r = c08._md([name], 0.5, 0.0, 1, False, steps, velocities=[v], sp_over={"method": method, "pair_outer_cutoff": cut})
    X = r["mols"][0]["coordinates"][-1]
    sep = float(min(np.linalg.norm(p_ - q_) for p_ in X[frag == 0] for q_ in X[frag == 1]))
    sep0 = float(min(np.linalg.norm(p_ - q_) for p_ in x[frag == 0] for q_ in x[frag == 1]))
    fresh = esh.run(np.array([z]), np.array([X]), esh.settings(method=method, eps=1e-10, **{"pair_outer_cutoff": cut}))
    bad = []
    dE = abs(float(r["mols"][0]["data"][-1, 2]) - float(fresh["Etot"][0]))
    dF = float(np.abs(r["mols"][0]["forces"][-1] - fresh["force"][0]).max())
    if dE > 1e-6:
        bad.append(f"after {steps} steps (closest inter-fragment distance {sep0:.2f} -> {sep:.2f} A, cutoff {cut} A) the engine's potential energy differs from a fresh single point at the same geometry by {dE:.3e} eV")
    if dF > 1e-5:
        bad.append(f"... and its forces by {dF:.3e} eV/A")
    return {"ok": not bad, "observed": bad or [f"distance {sep0:.2f} -> {sep:.2f} A across the cutoff {cut} A; dE {dE:.1e}"], "expected": "pair list follows the geometry", "predicate": "",
            "fields": {"kinds": ["cutoff_md"] if bad else [], "method": method, "a": a, "b": b}, "nontrivial": sep0 < cut < sep}


def probe_cutoff_batch(inp: Dict[str, Any]) -> Dict[str, Any]:
    """finite cutoff in a batch of systems with IDENTICAL species rows whose geometries lie on both sides of the cutoff (a separation scan evaluated as one
    batch): every member ignores exactly ITS pairs beyond the cutoff, i.e. equals the same system computed alone, in either batch order"""
    a, b, method, cut = inp["a"], inp["b"], inp["method"], float(inp["cutoff"])
    sp = esh.settings(method=method, eps=1e-10, converger=[1], **{"pair_outer_cutoff": cut})
    geoms = [_pair_geometry(a, b, R, inp.get("seed", 0)) for R in inp["Rs"]]
    z = geoms[0][0]
    xs = [g[1] for g in geoms]
    alone = [esh.run(np.array([z]), np.array([x_]), sp) for x_ in xs]
    bad = []
    for order in ([list(range(len(xs))), list(range(len(xs)))[::-1]]):
        r = esh.run(np.array([z] * len(xs)), np.array([xs[i] for i in order]), sp)
        for pos, i in enumerate(order):
            dE = abs(float(r["Etot"][pos] - alone[i]["Etot"][0]))
            dF = float(np.abs(r["force"][pos] - alone[i]["force"][0]).max())
            if dE > 1e-8 or dF > 1e-7:
                bad.append(f"member at separation {inp['Rs'][i]} A (cutoff {cut} A), batch order {order}: differs from the same system alone by {dE:.3e} eV, {dF:.3e} eV/A")
    return {"ok": not bad, "observed": bad[:4], "expected": "each batch member uses its own pair list", "predicate": "batch member == alone under a finite cutoff",
            "fields": {"kinds": ["cutoff_batch"] if bad else [], "method": method, "a": a, "b": b}}


_CHILD = r"""
import sys, json, io, contextlib, warnings
warnings.filterwarnings("ignore")
import torch
# the order an ordinary script uses: the package is imported first, double precision is selected afterwards
from seqm.ElectronicStructure import Electronic_Structure
from seqm.Molecule import Molecule
from seqm.seqm_functions.constants import Constants
torch.set_default_dtype(torch.float64)
job = json.loads(sys.argv[1])
out = []
for z, x in job["systems"]:
    sp = {"method": job["method"], "scf_eps": 1e-11, "scf_converger": [1], "sp2": [False]}
    with contextlib.redirect_stdout(io.StringIO()):
        m = Molecule(Constants(), sp, torch.tensor([x], dtype=torch.float64), torch.tensor([z], dtype=torch.int64))
        Electronic_Structure(sp)(m)
    out.append(float(m.Etot[0]))
print("RESULT " + json.dumps(out))
"""


def probe_far_fresh_process(inp: Dict[str, Any]) -> Dict[str, Any]:
    """the long-distance law in a FRESH process that imports the package before it selects double precision (the order of an ordinary user script; this
    harness selects double precision first): E_AB - E_A - E_B keeps following R^-3 out to 500 A - the 1/R monopole terms of the core-core, core-electron
    and electron-electron parts cancel only if all of them use the same constants to the last digit"""
    import json
    import subprocess
    import sys

    from ..core import REPO
    a, b, method = inp["a"], inp["b"], inp["method"]
    Rs = [64.0, 128.0, 256.0, 500.0]
    systems = []
    for R in Rs:
        z, x, frag, (za_, xa), (zb_, xb) = _pair_geometry(a, b, R, inp.get("seed", 0))
        systems += [(list(map(int, z)), np.asarray(x).tolist()), (list(map(int, za_)), np.asarray(xa).tolist()), (list(map(int, zb_)), np.asarray(xb).tolist())]
    env = dict(os.environ, PYTHONPATH=REPO, OMP_NUM_THREADS="2")
    p = subprocess.run([sys.executable, "-c", _CHILD, json.dumps({"method": method, "systems": systems})], capture_output=True, text=True, env=env, timeout=900)
    lines = [ln for ln in p.stdout.splitlines() if ln.startswith("RESULT ")]
    if not lines:
        raise RuntimeError("child failed: " + p.stderr[-800:])
    E = json.loads(lines[-1][7:])
    deltas = [E[3 * i] - E[3 * i + 1] - E[3 * i + 2] for i in range(len(Rs))]
    c3 = [d * R ** 3 for d, R in zip(deltas, Rs)]
    bad = []
    ref = c3[0]
    for R, c in zip(Rs[1:], c3[1:]):
        # falls off at least as fast as R^-3: the R^3-scaled interaction never grows (0.05 eV A^3 = round-off of the three energies at 500 A);
        # for a pair with a sizeable dipole-dipole term it also keeps its value and sign
        if abs(c) > 1.6 * abs(ref) + 0.05 or (abs(ref) > 0.5 and c / ref < 0.6):
            bad.append(f"(E_AB - E_A - E_B) R^3 = {c:.3f} eV A^3 at {R} A against {ref:.3f} at {Rs[0]} A: the interaction does not fall off like R^-3 or faster")
    return {"ok": not bad, "observed": bad[:3] or [f"R^3-scaled interaction {['%.3f' % c for c in c3]}"], "expected": "R^-3 law (or faster) out to 500 A in a fresh process",
            "predicate": "|c(R)| <= 1.6 |c(64 A)| + 0.05, same sign and size for polar pairs", "fields": {"kinds": ["far_fresh_process"] if bad else [], "method": method}}


PROBES = {"fragments": probe_fragments, "fragments_batched": probe_fragments_batched, "cutoff_md": probe_cutoff_md, "cutoff_batch": probe_cutoff_batch, "far_fresh_process": probe_far_fresh_process}


def gen_cases(ctx: Ctx):
    rng = ctx.rng
    pool = ["h2o", "nh3", "ch4", "hf", "hcn", "ch2o", "h2", "co", "hcl", "h2s"]
    methods = ["AM1", "MNDO", "PM3", "PM6_SP"]
    n = 16 if ctx.thorough else 5
    cases = [{"a": "h2o", "b": "h2o", "method": "AM1", "seed": 1},
             # a polar pair under a PM6-family method in every run (its core-core term has its own code path; the 1/R monopole terms must cancel to round-off)
             {"a": ["h2o", "hf", "nh3"][ctx.seed % 3], "b": "h2o", "method": "PM6_SP", "seed": int(rng.integers(0, 10**6))}]
    for i in range(n):
        a, b = [str(v) for v in rng.choice(pool, size=2)]
        cases.append({"a": a, "b": b, "method": methods[i % 4], "seed": int(rng.integers(0, 10**6))})
    return cases


def _dispatch(item):
    return PROBES[item[0]](item[1])


def gen_extra(ctx: Ctx):
    rng = ctx.rng
    pool = ["h2o", "nh3", "ch4", "hf", "hcn", "ch2o", "co", "hcl"]
    out = []
    for i in range(5 if ctx.thorough else 2):
        a, b = [("nh3", "h2o"), ("ch4", "hf")][ctx.seed % 2] if i == 0 else [str(v) for v in rng.choice(pool, size=2, replace=False)]
        out.append(("fragments_batched", {"a": a, "b": b, "method": ["AM1", "PM3", "MNDO"][(i + ctx.seed) % 3], "R": float(rng.choice([25.0, 30.0, 60.0])), "seed": int(rng.integers(0, 10**6))}))
    for i in range(3 if ctx.thorough else 1):
        out.append(("far_fresh_process", {"a": ["h2o", "hf", "nh3"][(i + ctx.seed) % 3], "b": "h2o", "method": ["PM6_SP", "AM1", "PM3"][i % 3], "seed": int(rng.integers(0, 10**6))}))
    for i in range(3 if ctx.thorough else 1):
        a, b = [("h2o", "h2o"), ("hf", "h2o"), ("nh3", "ch4")][(i + ctx.seed) % 3]
        out.append(("cutoff_batch", {"a": a, "b": b, "method": ["AM1", "PM3", "MNDO"][(i + ctx.seed) % 3], "cutoff": float(rng.choice([9.0, 10.0])), "Rs": [6.0, 30.0, 12.0][: 2 + i % 2], "seed": int(rng.integers(0, 10**6))}))
    for i in range(3 if ctx.thorough else 1):
        a, b = [("h2o", "h2o"), ("hf", "h2o"), ("nh3", "co")][(i + ctx.seed) % 3]
        out.append(("cutoff_md", {"a": a, "b": b, "method": ["AM1", "PM3"][(i + ctx.seed) % 2], "cutoff": float(rng.choice([9.0, 10.0])), "R0": 7.5, "seed": int(rng.integers(0, 10**6))}))
    return out


def run(ctx: Ctx):
    from ..translate import gen as _gen
    _gen.regenerate(ctx, ["Constants"])
    leanproj.check_theorems(ctx, MODULE, THEOREMS)
    from .registry import THEOREMS_CONSTTIE
    # constants tie: the place where the overlap terms are cut (source value, regenerated) is inside the distance range the additivity probes cross
    leanproj.check_theorems(ctx, "PyseqmVerif.Properties.ConstTie", THEOREMS_CONSTTIE)
    from .registry import THEOREMS_C19B
    leanproj.check_theorems(ctx, "PyseqmVerif.Properties.C19b", THEOREMS_C19B)
    cases = gen_cases(ctx)
    extra = gen_extra(ctx)
    for (nm, c), r in zip(extra, mdh.pmap(_dispatch, extra, timeout=1800)):
        if isinstance(r, Exception) or r is None:
            ctx.obligation(f"probe {nm} evaluated", False, repr(r)[-1500:], kind="harness")
            continue
        ctx.probe_case(nm, c, r["ok"], fields=r["fields"], observed=r["observed"], expected=r["expected"], predicate=r["predicate"], stratum=nm, nontrivial=r.get("nontrivial", True))
    results = mdh.pmap(probe_fragments, cases, timeout=1800)
    for c, r in zip(cases, results):
        if isinstance(r, Exception) or r is None:
            ctx.obligation("probe fragments evaluated", False, repr(r)[-1500:], kind="harness")
            continue
        ctx.probe_case("fragments", c, r["ok"], fields=r["fields"], observed=r["observed"], expected=r["expected"], predicate=r["predicate"],
                       stratum=c["method"])
        if len(ctx.samples) < 12:
            ctx.samples.append({"kind": "probe-detail", "pair": [c["a"], c["b"]], "method": c["method"], "E_AB-E_A-E_B(R)": r.get("deltas")})
