"""C06 - energies equal the published NDDO model evaluated on the shipped parameters."""
from __future__ import annotations

import contextlib
import io
from typing import Any, Dict, List

import numpy as np

from .. import esh, leanproj, mdh
from ..core import Ctx, b2f, f2b

MODULE = "PyseqmVerif.Properties.C06"
try:
    from .registry import THEOREMS_C06 as THEOREMS  # type: ignore
except Exception:  # pragma: no cover
    THEOREMS = []

META = {
    "technique": "executable NDDO specification in Lean 4 (Dewar-Thiel point-charge multipoles with Klopman-Ohno kernel; one-/two-centre Fock contraction driven by the index tables regenerated from the code) + theorems (22 closed forms = multipole sums, G linear/symmetric/self-adjoint, packed = 4-index contraction, one-centre factors = published expressions, rho residual characterisation/uniqueness) + per-element-pair correspondence over every element of each shipped table",
    "level_text": "Theorems over the reals: each of the 22 local-frame integrals the code writes equals the double sum over Dewar-Thiel point charges with the Klopman-Ohno kernel (index 21 in its rotational-invariance form, the alternative square-quadrupole value is refuted by a witness); (ss|ss) is the Klopman-Ohno kernel; the packed J/K contraction equals the full 16-term NDDO sums, is linear in P, maps symmetric to symmetric and is self-adjoint; the index tables (regenerated from fock.py on every run) are the lower-triangle packing with weights 1/2; the one-centre Fock terms equal sum P[(mu nu|la si) - 1/2(mu la|nu si)] with the five one-centre integrals; the additive terms are the unique roots of their defining equations. Tied to the code by recording the arguments of the real local-frame routine for every element pair of every shipped s/sp table (diatomics over 0.6-15 A) and comparing its output with the compiled model AND with the point-charge specification, by comparing _one_center/_two_center with the model on random densities, and by linearity/symmetry/UHF-exchange probes on the real Fock builders. Round 2: an independent closed-shell NDDO energy functional and Fock operator (vf/oracle_scf.py, numpy, written from the published equations) - every density the package returns as converged must reproduce the reported electronic energy under it and be a stationary point of it, over solver x backward mode x batch layout. Translator tie: the core-core energy of the source (MNDO, AM1/PM3 branches, Gaussian summand, N-H/O-H mask) is the model's (CoreCoreTie).",
    "level_note": "Trusted: Lean kernel; harness. Absolute tolerance 1e-13*ev/r0 per integral (cancellation in pure-multipole entries), torch.sqrt is 1 ulp off IEEE on this build. Partial: Slater overlaps (diat_overlap*) and the assembly of Hcore from them are NOT modelled (listed as modelled: no); rotation and core-core terms are covered by the C02/C01 adapters; PM6 d-orbitals unmodelled.",
    "design_ref": "DESIGN.md section 5 C06",
    "modelled": {"local-frame ERIs (22/4/1)": True, "one-centre Fock": True, "two-centre J/K": True, "additive terms rho0/1/2 (residual)": True, "dd_qq": True,
                 "rotation to molecular frame": "C02 adapter wrot", "core-core": "C01 adapter enuc", "elec_energy": "C01 adapter eelec", "STO overlaps (A/B auxiliary integrals, 6 branches)": "Lean Overlap model + quadrature oracle", "Hcore assembly": "oracle (probe)", "PM6 d": False},
}

ELEMENTS = [1, 3, 4, 5, 6, 7, 8, 9, 11, 12, 13, 14, 15, 16, 17]


def _molecule(method, z1, z2, r):
    import torch

    from seqm.Molecule import Molecule
    from seqm.seqm_functions.constants import Constants

    zs = sorted([z1, z2], reverse=True)
    sp = {"method": method, "scf_eps": 1e-6, "scf_converger": [1], "sp2": [False], "UHF": True}
    const = Constants()
    nel = float(const.tore[zs[0]] + const.tore[zs[1]])
    mult = 1.0 if nel % 2 == 0 else 2.0
    x = torch.tensor([[[0.0, 0.0, 0.0], [r * 0.48, r * 0.6, r * 0.64]]])
    with contextlib.redirect_stdout(io.StringIO()):
        mol = Molecule(const, sp, x, torch.tensor([zs]), mult=torch.tensor([mult]))
    return mol


_PQN = {1: 1, 3: 2, 4: 2, 5: 2, 6: 2, 7: 2, 8: 2, 9: 2, 11: 3, 12: 3, 13: 3, 14: 3, 15: 3, 16: 3, 17: 3}


def _multipole_reference(z: int, p, i: int) -> Dict[str, float]:
    """dd, qq, rho0, rho1, rho2 of atom i from the shipped parameters: D1 = (2n+1)(4 zs zp)^(n+1/2) / (sqrt3 (zs+zp)^(2n+2)), D2 = sqrt((4n^2+6n+2)/20)/zp,
    rho0 = ev/(2 g_ss), and rho1, rho2 from h_sp = ev/2 [a - (4 D1^2 + a^-2)^-1/2], h_pp = ev [a/4 - (4 D2^2 + a^-2)^-1/2 / 2 + (8 D2^2 + a^-2)^-1/2 / 4] with rho = 1/(2a),
    h_pp = max((g_pp - g_p2)/2, 0.1 eV) (the floor MOPAC applies)"""
    from scipy.optimize import brentq

    from seqm.seqm_functions.constants import ev
    ev = float(ev)
    gss = float(p["g_ss"][i])
    out = {"dd": 0.0, "qq": 0.0, "rho0": 0.5 * ev / gss, "rho1": 0.0, "rho2": 0.0}
    if z == 1 or z not in _PQN:
        return out
    n = _PQN[z]
    zs, zp = float(p["zeta_s"][i]), float(p["zeta_p"][i])
    hsp, gpp, gp2 = float(p["h_sp"][i]), float(p["g_pp"][i]), float(p["g_p2"][i])
    dd = (2 * n + 1) * (4 * zs * zp) ** (n + 0.5) / (np.sqrt(3.0) * (zs + zp) ** (2 * n + 2))
    qq = np.sqrt((4 * n * n + 6 * n + 2) / 20.0) / zp
    hpp = max(0.5 * (gpp - gp2), 0.1)
    f1 = lambda a: 0.5 * a - 0.5 / np.sqrt(4 * dd * dd + 1 / a ** 2) - hsp / ev          # noqa: E731
    f2 = lambda a: 0.25 * a - 0.5 / np.sqrt(4 * qq * qq + 1 / a ** 2) + 0.25 / np.sqrt(8 * qq * qq + 1 / a ** 2) - hpp / ev  # noqa: E731
    try:
        ad = brentq(f1, 1e-6, 1e3, xtol=1e-15, rtol=1e-15)
        aq = brentq(f2, 1e-6, 1e3, xtol=1e-15, rtol=1e-15)
    except Exception:
        return out
    out.update(dd=float(dd), qq=float(qq), rho1=0.5 / ad, rho2=0.5 / aq)
    return out


def element_pairs_case(inp: Dict[str, Any]) -> Dict[str, Any]:
    """record the real local-frame routine on a diatomic; return its inputs/outputs per pair class"""
    import torch

    import seqm.seqm_functions.two_elec_two_center_int as T
    from seqm.seqm_functions.constants import ev
    from seqm.seqm_functions.hcore import hcore

    method, z1, z2, r = inp["method"], inp["z1"], inp["z2"], inp["r"]
    try:
        mol = _molecule(method, z1, z2, r)
    except Exception as e:
        return {"skip": f"{type(e).__name__}: {str(e)[:80]}"}
    p = mol.parameters
    if float(p["zeta_s"].abs().min()) == 0.0 or float(p["g_ss"].abs().min()) == 0.0:
        return {"skip": "element not parametrised in this table"}
    rec = {}
    orig = T.TETCILF

    def w(ni, nj, r0, tore, da0, db0, qa0, qb0, rho0a, rho0b, rho1a, rho1b, rho2a, rho2b, themethod):
        out = orig(ni, nj, r0, tore, da0, db0, qa0, qb0, rho0a, rho0b, rho1a, rho1b, rho2a, rho2b, themethod)
        rec["args"] = [t.detach().clone() if torch.is_tensor(t) else t for t in (ni, nj, r0, da0, db0, qa0, qb0, rho0a, rho0b, rho1a, rho1b, rho2a, rho2b)]
        rec["out"] = [t.detach().clone() if torch.is_tensor(t) else t for t in out]
        return out
    T.TETCILF = w
    try:
        with torch.no_grad(), contextlib.redirect_stdout(io.StringIO()):
            hcore(mol)
    finally:
        T.TETCILF = orig
    if "args" not in rec:
        return {"skip": "local-frame routine not reached"}
    ni, nj, r0, da, db, qa, qb, r0a, r0b, r1a, r1b, r2a, r2b = rec["args"]
    riHH, riXH, ri = rec["out"][0], rec["out"][1], rec["out"][2]
    res = {"ev": float(ev), "ni": int(ni[0]), "nj": int(nj[0]), "r0": float(r0[0]),
           "args": [float(t[0]) for t in (da, db, qa, qb, r0a, r0b, r1a, r1b, r2a, r2b)]}
    # independent evaluation of the charge separations and additive terms from the parameter table (published Dewar-Thiel relations, own root finder)
    res["multipole_ref"] = [_multipole_reference(int(z_), p, i_) for i_, z_ in enumerate((ni[0], nj[0]))]
    if int(ni[0]) > 1 and int(nj[0]) > 1:
        res["cls"], res["ri"] = "XX", ri.reshape(-1).tolist()
    elif int(ni[0]) > 1:
        res["cls"], res["ri"] = "XH", riXH.reshape(-1).tolist()
    else:
        res["cls"], res["ri"] = "HH", riHH.reshape(-1).tolist()
    return res


def probe_fock_properties(inp: Dict[str, Any]) -> Dict[str, Any]:
    """G linear, symmetric, self-adjoint on the REAL fock(); UHF builder with P_a = P_b = P/2 equals the RHF builder"""
    import torch

    from seqm.seqm_functions.fock import fock
    from seqm.seqm_functions.fock_u_batch import fock_u_batch

    r = esh.run_named(inp["names"], esh.settings(method=inp["method"], eps=1e-8))
    mol = r["_mol"]
    p = mol.parameters
    rng = np.random.default_rng(inp["seed"])
    n = mol.dm.shape[-1]
    nmol = int(mol.nmol)
    occ = (mol.dm.abs().sum(-1) > 0).numpy()  # orbital rows that exist

    def rand_sym():
        A = rng.normal(size=(nmol, n, n))
        A = 0.5 * (A + A.transpose(0, 2, 1))
        A *= occ[:, :, None] * occ[:, None, :]
        return torch.as_tensor(A)
    M0 = torch.zeros(nmol * mol.molsize * mol.molsize, 4, 4)
    args = (mol.maskd, mol.mask, mol.idxi, mol.idxj, mol.w.detach(), None, p["g_ss"].detach(), p["g_pp"].detach(), p["g_sp"].detach(), p["g_p2"].detach(), p["h_sp"].detach(), mol.method, None, None, None, None, None, None)

    def G(P):
        with torch.no_grad():
            return fock(nmol, mol.molsize, P, M0, *args)
    A, B = rand_sym(), rand_sym()
    a, b = 0.7, -1.9
    bad = []
    kinds = set()
    gA, gB = G(A), G(B)
    d = float((G(a * A + b * B) - (a * gA + b * gB)).abs().max())
    if d > 1e-10:
        bad.append(f"two-electron operator not linear in the density: {d:.2e}"); kinds.add("linear")
    d = float((gA - gA.transpose(1, 2)).abs().max())
    if d > 1e-11:
        bad.append(f"G(P) not symmetric for symmetric P: {d:.2e}"); kinds.add("symmetric")
    d = float(((A * gB).sum() - (B * gA).sum()).abs())
    if d > 1e-9:
        bad.append(f"G not self-adjoint: <A,G B> - <B,G A> = {d:.2e}"); kinds.add("self_adjoint")
    # UHF exchange factor: alpha/beta Fock with equal spin densities = RHF Fock
    with torch.no_grad():
        Pu = torch.stack((0.5 * A, 0.5 * A), dim=1)
        Fu = fock_u_batch(nmol, mol.molsize, Pu, M0, *args)
    d = float((Fu[:, 0] - gA).abs().max()) + float((Fu[:, 1] - gA).abs().max())
    if d > 1e-10:
        bad.append(f"unrestricted Fock with P_a = P_b = P/2 differs from the restricted Fock by {d:.2e}"); kinds.add("uhf_exchange")
    # spin-polarised: F_a - F_b = -K(P_a - P_b): antisymmetric under swapping the spins
    with torch.no_grad():
        Pab = torch.stack((0.5 * A + 0.3 * B, 0.5 * A - 0.3 * B), dim=1)
        Pba = torch.stack((0.5 * A - 0.3 * B, 0.5 * A + 0.3 * B), dim=1)
        F1, F2 = fock_u_batch(nmol, mol.molsize, Pab, M0, *args), fock_u_batch(nmol, mol.molsize, Pba, M0, *args)
    d = float((F1[:, 0] - F2[:, 1]).abs().max())
    if d > 1e-10:
        bad.append(f"unrestricted Fock not equivariant under alpha<->beta: {d:.2e}"); kinds.add("uhf_exchange")
    d = float(((F1[:, 0] + F1[:, 1]) - 2 * gA - 0).abs().max())
    # F_a + F_b = 2 J(P) - K(P) = 2 F_RHF(P) (Hcore = 0)
    if d > 1e-10:
        bad.append(f"F_alpha + F_beta != 2 F_RHF(P_alpha + P_beta): {d:.2e}"); kinds.add("uhf_exchange")
    # rotational covariance of both Fock builders for arbitrary (spin-polarised) densities: F[R x, U P U^T] = U F[x, P] U^T with U = per-atom diag(1, R)
    Rm = esh.random_rotation(rng)
    s_, x_, ch_, mu_ = esh.batch(inp["names"])
    real_ = s_ > 0
    x2 = x_.copy()
    x2[real_] = x_[real_] @ Rm.T
    r2 = esh.run(s_, x2, esh.settings(method=inp["method"], eps=1e-8), charges=ch_)
    mol2 = r2["_mol"]
    p2 = mol2.parameters
    args2 = (mol2.maskd, mol2.mask, mol2.idxi, mol2.idxj, mol2.w.detach(), None, p2["g_ss"].detach(), p2["g_pp"].detach(), p2["g_sp"].detach(), p2["g_p2"].detach(), p2["h_sp"].detach(), mol2.method, None, None, None, None, None, None)
    U1 = np.eye(4)
    U1[1:, 1:] = Rm
    U = torch.as_tensor(np.kron(np.eye(mol.molsize), U1))
    Pa, Pb = 0.5 * A + 0.3 * B, 0.5 * A - 0.3 * B
    with torch.no_grad():
        Fr = fock(nmol, mol.molsize, U @ A @ U.T, M0, *args2)
        d = float((Fr - U @ gA @ U.T).abs().max())
        if d > 1e-9:
            bad.append(f"restricted Fock operator not rotation covariant: {d:.2e}"); kinds.add("covariance")
        Fu0 = fock_u_batch(nmol, mol.molsize, torch.stack((Pa, Pb), dim=1), M0, *args)
        Fu1 = fock_u_batch(nmol, mol.molsize, torch.stack((U @ Pa @ U.T, U @ Pb @ U.T), dim=1), M0, *args2)
        d = max(float((Fu1[:, 0] - U @ Fu0[:, 0] @ U.T).abs().max()), float((Fu1[:, 1] - U @ Fu0[:, 1] @ U.T).abs().max()))
        if d > 1e-9:
            bad.append(f"unrestricted Fock operator not rotation covariant for a spin-polarised density: {d:.2e}"); kinds.add("uhf_covariance")
    return {"ok": not bad, "observed": bad, "expected": "G linear, symmetric, self-adjoint, rotation covariant; UHF exchange with spin densities", "predicate": "", "fields": {"kinds": sorted(kinds), "method": inp["method"]}}


def probe_scf_reference(inp: Dict[str, Any]) -> Dict[str, Any]:
    """the density the package returns as converged reproduces the reported electronic energy under an INDEPENDENT NDDO functional and is a
    stationary point of it ([F_ref[P], P] = 0): whichever solver, backward mode, batch layout or packing path produced it"""
    from .. import oracle_scf

    kw = {}
    if "scf_backward" in inp:
        kw["scf_backward"] = inp["scf_backward"]
    sp = esh.settings(method=inp["method"], eps=1e-10, converger=inp["converger"], **kw)
    o = oracle_scf.check_member(inp["names"], inp["target"], sp, pad_to=inp.get("pad_to"))
    bad = []
    if o["notconverged"]:
        return {"ok": True, "observed": ["not converged: flagged, skipped"], "expected": "", "predicate": "", "fields": {"kinds": [], "skipped": True}}
    # (the package's overlaps use a truncated B series: energies agree to ~1e-6 relative only, see DESIGN 10.6)
    if o["dE"] > 3e-5:
        bad.append(f"reported electronic energy {o['E_pkg']:.8f} differs from the reference functional of the returned density {o['E_ref']:.8f} by {o['dE']:.3e} eV")
    if o["commutator"] > 2e-5:
        bad.append(f"the returned density is not a stationary point of the reference functional: |[F_ref, P]| = {o['commutator']:.3e}")
    return {"ok": not bad, "observed": bad or [f"dE {o['dE']:.1e} [F,P] {o['commutator']:.1e}"], "expected": "E_pkg = E_ref[P], [F_ref[P], P] = 0", "predicate": "dE <= 3e-5 eV, commutator <= 2e-5",
            "fields": {"kinds": ["scf_reference"] if bad else [], "method": inp["method"], "converger": inp["converger"][0], "scf_backward": inp.get("scf_backward", 0)}}


def probe_near_axis(inp: Dict[str, Any]) -> Dict[str, Any]:
    """the published model knows no preferred direction: the energies of a molecule one of whose bonds lies a SMALL angle off the +x or -x axis (the
    direction the local frames are built from) equal those of the same molecule in a generic orientation (whose value the oracle strata certify).
    Angles start outside the cone of known finding F2 (4.5e-4 rad), where the package's frame is exact."""
    nm = inp["name"]
    z, x0 = esh.geom(nm)
    x0 = np.asarray(x0, dtype=float)
    sp = esh.settings(method=inp["method"], eps=1e-11, converger=[1])
    rng = np.random.default_rng(inp["seed"])
    ref = esh.run(np.array([z]), np.array([x0 @ esh.random_rotation(rng).T]), sp)
    b = x0[inp["bond"][1]] - x0[inp["bond"][0]]
    b = b / np.linalg.norm(b)
    # rotation taking the bond direction to the unit vector at angle theta from +-x in a random azimuth
    th, phi = float(inp["theta"]), float(rng.uniform(0, 2 * np.pi))
    tgt = np.array([inp["sign"] * np.cos(th), np.sin(th) * np.cos(phi), np.sin(th) * np.sin(phi)])
    v = np.cross(b, tgt)
    c = float(b @ tgt)
    if np.linalg.norm(v) < 1e-12:
        R = np.eye(3) if c > 0 else -np.eye(3)
    else:
        K = np.array([[0, -v[2], v[1]], [v[2], 0, -v[0]], [-v[1], v[0], 0]])
        R = np.eye(3) + K + K @ K * (1.0 / (1.0 + c))
    r = esh.run(np.array([z]), np.array([x0 @ R.T]), sp)
    bad = []
    for k in ("Etot", "Eelec", "Enuc", "Hf"):
        d = abs(float(r[k][0]) - float(ref[k][0]))
        if d > 2e-8:
            bad.append(f"{k} differs by {d:.3e} eV from the value in a generic orientation (bond {inp['bond']} at {th:.1e} rad from {'+' if inp['sign'] > 0 else '-'}x)")
    return {"ok": not bad, "observed": bad or ["equal within 2e-8 eV"], "expected": "orientation-independent energies outside the F2 cone", "predicate": "|E(near axis) - E(generic)| <= 2e-8 eV",
            "fields": {"kinds": ["near_axis"] if bad else [], "method": inp["method"], "theta": th}}


PROBES = {"fock_properties": probe_fock_properties, "scf_reference": probe_scf_reference, "near_axis": probe_near_axis}


def corr_fock_blocks(ctx: Ctx, drv):
    import torch

    from seqm.seqm_functions.fock import _one_center, _two_center

    rng = ctx.rng
    n = 40 if ctx.thorough else 12
    for i in range(n):
        g = rng.uniform(1, 15, size=5)
        P = rng.normal(size=(4, 4))
        P = 0.5 * (P + P.T)
        F = _one_center(torch.zeros(1, 4, 4), torch.as_tensor(P).unsqueeze(0), torch.tensor([0]), *[torch.tensor([v]) for v in (g[0], g[2], g[1], g[3], g[4])])[0].numpy().reshape(-1)
        # _one_center(F, P, maskd, gss, gpp, gsp, gp2, hsp); driver: onecenter gss gsp gpp gp2 hsp P[16]
        out = drv.ask("onecenter", *[f2b(v) for v in g], *[f2b(v) for v in P.reshape(-1)])
        ok = len(out) == 16 and all(abs(b2f(o) - w) <= 1e-13 * max(1.0, abs(w)) for o, w in zip(out, F))
        ctx.corr_case("_one_center", {"g": g.tolist()}, [b2f(o) for o in out][:4] if len(out) == 16 else out, F[:4].tolist(), ok)
        w = rng.normal(size=(10, 10)) * 3
        PA, PB, PAB = (rng.normal(size=(4, 4)) for _ in range(3))
        PA, PB = 0.5 * (PA + PA.T), 0.5 * (PB + PB.T)
        Pblocks = torch.zeros(4, 4, 4)
        Pblocks[0], Pblocks[3], Pblocks[1] = torch.as_tensor(PA), torch.as_tensor(PB), torch.as_tensor(PAB)
        Pblocks[2] = torch.as_tensor(PAB.T)
        F2 = _two_center(torch.zeros(4, 4, 4), Pblocks, torch.as_tensor(w).unsqueeze(0), torch.tensor([0, 3]), torch.tensor([1]), torch.tensor([0]), torch.tensor([1]), "AM1")
        want = np.concatenate([F2[0].numpy().reshape(-1), F2[3].numpy().reshape(-1), F2[1].numpy().reshape(-1)])
        out = drv.ask("twocenterjk", *[f2b(v) for v in w.reshape(-1)], *[f2b(v) for v in PA.reshape(-1)], *[f2b(v) for v in PB.reshape(-1)], *[f2b(v) for v in PAB.reshape(-1)])
        ok = len(out) == 48 and all(abs(b2f(o) - v) <= 1e-12 * max(1.0, np.abs(want).max()) for o, v in zip(out, want))
        ctx.corr_case("_two_center", {"i": i}, [b2f(o) for o in out][:4] if len(out) == 48 else out, want[:4].tolist(), ok)


def _oracle_sweep(args):
    from .. import oracle_nddo as O
    return O.sweep(**args)


def _oracle_lean(args):
    from .. import oracle_nddo as O
    return O.lean_crosscheck(**args)


def probe_hcore_oracle(inp):
    from .. import oracle_nddo as O
    r = O.compare_hcore(inp["method"], inp["z1"], inp["z2"], inp["R"], inp["direction"])
    ok = bool(r.get("ok_modulo_bseries", r.get("ok", False))) if "skip" not in r else True
    return {"ok": ok, "observed": {k: r.get(k) for k in ("d_ovl", "d_res", "d_diag", "worst", "b_series", "d_ovl_xb", "d_res_xb")}, "expected": "package overlap/Hcore = independent evaluation",
            "predicate": "overlap <= 1e-7, Hcore <= 1e-6 eV (excess explained by the truncated B series only)", "fields": {"kinds": ["hcore_oracle"], "method": inp["method"], "cls": r.get("cls")}}


PROBES["hcore_oracle"] = probe_hcore_oracle


def oracle_stage(ctx: Ctx):
    rng = ctx.rng
    els = list(ELEMENTS)
    if ctx.thorough:
        jobs = [dict(methods=(m,), elements=tuple(els), distances=(0.6, 1.1, 2.3, 5.0), ndir=2, seed=int(rng.integers(0, 10**6)), triatomics=True) for m in ("MNDO", "AM1", "PM3")]
    else:
        sub = sorted({1, 6, 8, 17} | {int(v) for v in rng.choice(els, size=5, replace=False)})
        jobs = [dict(methods=(m,), elements=tuple(sub), distances=(float(rng.choice([0.6, 1.1])), float(rng.choice([2.3, 5.0]))), ndir=1, seed=int(rng.integers(0, 10**6)), triatomics=(m == "AM1"))
                for m in ("MNDO", "AM1", "PM3")]
    # diffuse valence shells (Li, Be, Na, Mg, Al) at 11-15 A: far below the overlap cut-off of 40 bohr (21.2 A), resonance integrals still ~1e-2 eV
    diffuse = (3, 4, 11, 12, 13)
    jobs.append(dict(methods=("MNDO", "AM1", "PM3") if ctx.thorough else (str(rng.choice(["MNDO", "PM3", "AM1"])),), elements=diffuse, distances=(11.5, 14.5) if ctx.thorough else (float(rng.choice([11.5, 13.0, 14.5])),),
                     ndir=1, seed=int(rng.integers(0, 10**6)), triatomics=False))
    results = mdh.pmap(_oracle_sweep, jobs, nproc=4, timeout=3000)
    classes = {}
    for job, res in zip(jobs, results):
        if isinstance(res, Exception) or res is None:
            ctx.obligation("overlap/Hcore oracle sweep evaluated", False, repr(res)[-1200:], kind="harness")
            continue
        for r in res:
            if "skip" in r or r.get("skipped"):
                continue
            ok = bool(r.get("ok_modulo_bseries", r.get("ok", False)))
            inp = {"method": r.get("method"), "z1": r.get("z1"), "z2": r.get("z2"), "R": r.get("R"), "direction": r.get("direction"), "species": r.get("species")}
            key = (r.get("method"), r.get("cls"))
            c = classes.setdefault(key, {"n": 0, "d_ovl": 0.0, "d_res": 0.0, "d_diag": 0.0})
            c["n"] += 1
            for k in ("d_ovl", "d_res", "d_diag"):
                c[k] = max(c[k], float(r.get(k) or 0.0))
            ctx.probe_case("hcore_oracle", inp, ok, fields={"kinds": ["hcore_oracle"], "method": r.get("method"), "cls": r.get("cls")},
                           observed={k: r.get(k) for k in ("d_ovl", "d_res", "d_diag", "worst", "b_series")}, expected="package overlap/Hcore = independent evaluation",
                           predicate="overlap <= 1e-7, Hcore <= 1e-6 eV (excess explained by the truncated B series only)", stratum=f"{r.get('method')}/{r.get('cls')}")
    ctx.extra["overlap_oracle_classes"] = {f"{k[0]}/{k[1]}": v for k, v in classes.items()}
    lc = mdh.pmap(_oracle_lean, [dict(methods=("MNDO", "AM1", "PM3") if ctx.thorough else (str(rng.choice(["MNDO", "AM1", "PM3"])),),
                                      distances=(0.7, 1.3, 2.9) if ctx.thorough else (float(rng.choice([0.7, 1.3, 2.9])),), seed=int(rng.integers(0, 10**6)))], nproc=1, timeout=3000)[0]
    if isinstance(lc, Exception) or lc is None:
        ctx.obligation("Lean overlap cross-check evaluated", False, repr(lc)[-1200:], kind="harness")
    else:
        ctx.corr_case("Slater overlaps: package vs Lean Overlap model vs quadrature oracle", {"pairs": lc.get("n_pairs")}, {k: lc.get(k) for k in ("aux_max_ulp", "local_vs_package", "overlap_vs_oracle_exact_regime", "overlap_vs_oracle_series_regime", "bad_op")},
                      "agree within stated bounds", bool(lc.get("ok")))


def run(ctx: Ctx):
    from ..translate import gen
    gen.regenerate(ctx, ["FockTables", "CoreCoreGen", "RootGen", "Constants"])
    leanproj.check_theorems(ctx, MODULE, THEOREMS)
    from .registry import THEOREMS_CORECORETIE
    # translator tie: the core-core energy of the source is the model's (= the published MNDO / AM1 / PM3 core term)
    leanproj.check_theorems(ctx, "PyseqmVerif.Properties.CoreCoreTie", [t for t in THEOREMS_CORECORETIE if "enuc" in t or "gaussSummand" in t or "spec" in t])
    from .registry import THEOREMS_CONSTTIE, THEOREMS_ROOTTIE
    # constants tie: the overlap cut-off of the source lies beyond the 15 A range of the property (no resonance term dropped inside it)
    leanproj.check_theorems(ctx, "PyseqmVerif.Properties.ConstTie", THEOREMS_CONSTTIE)
    # translator tie: the additive terms are five secant steps on the residual functions whose roots C06 characterises
    leanproj.check_theorems(ctx, "PyseqmVerif.Properties.RootTie", [t for t in THEOREMS_ROOTTIE if "Step" in t or "Forward" in t or t.endswith("trips")])
    from .registry import THEOREMS_C06B
    leanproj.check_theorems(ctx, "PyseqmVerif.Properties.C06b", THEOREMS_C06B)
    # Slater overlaps and Hcore assembly: independent oracle (numerical quadrature in prolate spheroidal coordinates, own rotation, own assembly)
    # and three-way tie package <-> Lean Overlap model <-> oracle
    try:
        oracle_stage(ctx)
    except Exception:
        import traceback
        ctx.obligation("overlap/Hcore oracle stage ran", False, traceback.format_exc()[-1500:], kind="harness")
    rng = ctx.rng
    # element-pair lattice: every pair class of every table; distances 0.6-15 A
    cases = []
    methods = ["MNDO", "AM1", "PM3"]
    pairs = [(a, b) for a in ELEMENTS for b in ELEMENTS if a >= b]
    for method in methods:
        sel = pairs if ctx.thorough else [pairs[int(i)] for i in rng.choice(len(pairs), size=26, replace=False)] + [(1, 1), (8, 1), (17, 17), (16, 8)]
        for (a, b) in sel:
            for r in ([0.6, 1.1, 2.3, 5.0, 15.0] if ctx.thorough else [float(rng.choice([0.6, 1.1, 2.3, 5.0, 15.0]))]):
                cases.append({"method": method, "z1": a, "z2": b, "r": r})
    results = mdh.pmap(element_pairs_case, cases, timeout=1800)
    drv = leanproj.Driver()
    covered = set()
    skipped = set()
    try:
        for c, res in zip(cases, results):
            if isinstance(res, Exception) or res is None:
                ctx.obligation("element_pairs_case harness", False, repr(res)[-800:], kind="harness")
                continue
            if "skip" in res:
                skipped.add((c["method"], c["z1"], c["z2"], res["skip"][:40]))
                continue
            ev, r0 = res["ev"], res["r0"]
            da, db, qa, qb, r0a, r0b, r1a, r1b, r2a, r2b = res["args"]
            mr = res.get("multipole_ref")
            if mr:
                got = {"dd": (da, db), "qq": (qa, qb), "rho0": (r0a, r0b), "rho1": (r1a, r1b), "rho2": (r2a, r2b)}
                worst = max(abs(got[k][j] - mr[j][k]) for k in got for j in (0, 1) if (res["ni"], res["nj"])[j] > 1 or k == "rho0")
                # (an independent evaluation of the published relations is the property's own reference: a mismatch is a failing input, not a broken tie)
                ctx.probe_case("multipole_parameters", {"method": c["method"], "Z": [res["ni"], res["nj"]]}, worst <= 1e-7, fields={"kinds": ["multipole_parameters"], "method": c["method"]},
                               observed=[] if worst <= 1e-7 else [f"{k}: code {got[k][j]:.9f} vs independent {mr[j][k]:.9f} (Z={(res['ni'], res['nj'])[j]})" for k in got for j in (0, 1) if abs(got[k][j] - mr[j][k]) > 1e-7],
                               expected="dd, qq, rho0, rho1, rho2 as the published Dewar-Thiel relations give them from the shipped parameters", predicate="|code - independent| <= 1e-7 bohr",
                               stratum=f"{c['method']}/{res['cls']}")
            tol = 2e-13 * ev / r0 * 10
            if res["cls"] == "XX":
                a1 = [f2b(v) for v in (ev, r0, da, db, qa, qb, r0a, r0b, r1a, r1b, r2a, r2b)]
                out, spec = drv.ask("ri22", *a1), drv.ask("ri22spec", *a1)
            elif res["cls"] == "XH":
                a1 = [f2b(v) for v in (ev, r0, da, qa, r0a, r0b, r1a, r2a)]
                out, spec = drv.ask("rixh", *a1), drv.ask("rixhspec", *a1)
            else:
                a1 = [f2b(v) for v in (ev, r0, r0a, r0b)]
                out = drv.ask("rihh", *a1)
                spec = out
            want = res["ri"]
            ok = len(out) == len(want) and all(abs(b2f(o) - w) <= tol for o, w in zip(out, want))
            oks = len(spec) == len(want) and all(abs(b2f(o) - w) <= 5 * tol for o, w in zip(spec, want))
            ctx.corr_case("local-frame ERIs (code vs model)", {"method": c["method"], "Z": [res["ni"], res["nj"]], "r_A": c["r"]}, [b2f(o) for o in out][:3] if ok else out[:3], want[:3], ok,
                          stratum=f"{c['method']}/{res['cls']}")
            ctx.corr_case("local-frame ERIs (code vs point-charge specification)", {"method": c["method"], "Z": [res["ni"], res["nj"]], "r_A": c["r"], "spec": True}, "ok" if oks else [b2f(o) for o in spec][:3],
                          want[:3], oks, stratum=f"{c['method']}/{res['cls']}")
            covered.add((c["method"], res["ni"], res["nj"]))
        try:
            corr_fock_blocks(ctx, drv)
        except Exception:
            import traceback
            ctx.obligation("correspondence adapters C06 (fock blocks) ran", False, traceback.format_exc()[-1500:], kind="harness")
    finally:
        drv.close()
    ctx.extra["element_pairs_covered"] = {m: sorted({(a, b) for (mm, a, b) in covered if mm == m}) for m in methods}
    ctx.extra["element_pairs_skipped"] = sorted(skipped)[:60]
    pcases = [{"names": [["h2o"], ["ch2o", "nh3"], ["ch3cl"], ["so2", "h2"]][i % 4], "method": ["AM1", "MNDO", "PM3", "PM6_SP"][i % 4], "seed": int(rng.integers(0, 10**6))} for i in range(8 if ctx.thorough else 3)]
    # SCF energy = stationary value of an independent functional: solver x backward mode x batch layout (equal orbital count, different heavy/H split; padding)
    layouts = [(["ch4", "co"], 0), (["co", "ch4"], 1), (["c2h4", "so2"], 1), (["h2o"], 0), (["ch2o", "h2o"], 1), (["nh3", "hcn", "h2"], 1), (["ch3cl"], 0), (["h2s", "hcl"], 0)]
    scases = []
    for i in range(24 if ctx.thorough else 8):
        names, tgt = layouts[int(rng.integers(0, len(layouts)))] if i >= 3 else layouts[i]
        scases.append({"names": names, "target": tgt, "method": ["MNDO", "AM1", "PM3"][i % 3], "converger": [[1], [0, 0.3], [2], [1, 0.5, 0.1, 12]][int(rng.integers(0, 4))],
                       "scf_backward": int(rng.integers(0, 3))})
    # every backward mode with the adaptive solver on a molecule with heavy atoms (each solver entry point has its own call site)
    for sb in (0, 1, 2):
        scases.append({"names": [["ch2o"], ["hcn"], ["h2o"]][(sb + ctx.seed) % 3], "target": 0, "method": ["PM3", "AM1", "MNDO"][(sb + ctx.seed) % 3], "converger": [1], "scf_backward": sb})
        scases.append({"names": ["ch2o"], "target": 0, "method": "PM3", "converger": [[0, 0.2], [2]][sb % 2], "scf_backward": sb})
    for c, r in zip(scases, mdh.pmap(probe_scf_reference, scases, timeout=1500)):
        if isinstance(r, Exception) or r is None:
            ctx.obligation("probe scf_reference evaluated", False, repr(r)[-1500:], kind="harness")
            continue
        ctx.probe_case("scf_reference", c, r["ok"], fields=r["fields"], observed=r["observed"], expected=r["expected"], predicate=r["predicate"], stratum=f"{c['method']}/sb{c['scf_backward']}/conv{c['converger'][0]}",
                       nontrivial=not r["fields"].get("skipped", False))
    ncases = []
    for i in range(12 if ctx.thorough else 4):
        nm = ["h2o", "nh3", "ch2o", "hf", "hcn", "ch4"][int(rng.integers(0, 6))]
        ncases.append({"name": nm, "method": ["AM1", "MNDO", "PM3", "PM6_SP"][i % 4], "bond": [[0, 1], [1, 0]][i % 2], "sign": [1, -1][(i // 2) % 2],
                       "theta": float(rng.choice([6e-4, 1e-3, 2e-3, 4e-3, 1e-2])), "seed": int(rng.integers(0, 10**6))})
    for c, r in zip(ncases, mdh.pmap(probe_near_axis, ncases, timeout=900)):
        if isinstance(r, Exception) or r is None:
            ctx.obligation("probe near_axis evaluated", False, repr(r)[-1500:], kind="harness")
            continue
        ctx.probe_case("near_axis", c, r["ok"], fields=r["fields"], observed=r["observed"], expected=r["expected"], predicate=r["predicate"], stratum=f"{c['method']}/{'+' if c['sign'] > 0 else '-'}x")
    for c, r in zip(pcases, mdh.pmap(probe_fock_properties, pcases)):
        if isinstance(r, Exception) or r is None:
            ctx.obligation("probe fock_properties evaluated", False, repr(r)[-1500:], kind="harness")
            continue
        ctx.probe_case("fock_properties", c, r["ok"], fields=r["fields"], observed=r["observed"], expected=r["expected"], predicate=r["predicate"], stratum=c["method"])
