"""C09 - XL-BOMD propagation is consistent with SCF, fixed-point preserving and stable."""
from __future__ import annotations

import contextlib
import io
import os
import subprocess
import sys
from typing import Any, Dict, List

import numpy as np

from .. import esh, leanproj, mdh
from ..core import VERIF, Ctx, b2f, f2b
from . import c08
from .registry import THEOREMS_C09 as THEOREMS

MODULE = "PyseqmVerif.Properties.C09"

META = {
    "technique": "Lean 4 refinement proof (circular buffer = history recurrence for all m, n, phases; restart restores the newest entry) + kernel-decided theorems about the coefficient tables REGENERATED from the live code (sum c = 0, window rotation, probed effective weights, published Niklasson scheme, fixed-point weight sum) + shadow-energy identity + characteristic-polynomial conditions for all k + rational Lyapunov certificates (k = 3, whole response range) + bit-exact correspondence of _propagate_P",
    "level_text": "Theorems: for every buffer size m, step n and initial phase the circular-buffer implementation computes the history recurrence, and the restart formula returns the newest entry (resumed = uninterrupted at every phase); for the tables regenerated from XL_BOMD.__init__ and the weights PROBED from the real _propagate_P (k = 3..9, every phase): sum_j c_j = 0, the window is a rotation, weights = published scheme with kappa_eff = 0.95 kappa, fixed-point weight sum = 1 within 2^-52, so a stationary system keeps P forever at any phase (real-number scheme exactly); E_XL(D,P) = E_SCF(P) at D = P for any Hcore and two-electron map; chi(1) = lambda != 0, sign of chi(-1), |prod roots| < 1 for all k; for k = 3 exact rational Lyapunov certificates on 52 intervals prove contraction for the whole range lambda in [1/50, 0.95*1.69]. Tied to the code by the per-run translator (tables + impulse probing) and by bit-exact comparison of the real _propagate_P / KSA variant with the compiled Float model on real-shaped densities at every k and phase, plus recorded histories of real one_step calls. Round 2 (C09c): the executed recurrence preserves every linear invariant of the density (electron count) at every buffer phase, and a response update with trace t changes it by exactly coeffD*t; observed on the real code by the aux_trace probe (padded batch members, fractional occupations, Krylov ranks 1-4). Translator tie: the XL / XL-ESMD step bodies are velocity Verlet whose force engine sees the PROPAGATED auxiliary state (StepTie.xl_is_vvStep_on_propagated_aux, esmd_is_xl_without_cavity).",
    "level_note": "Trusted: Lean kernel; translator gen.xlcoeffs (impulse probing of the real method) and lyap.py (certificate generator; its output is checked by the kernel, reproducibility re-checked each run). Partial: continuum stability for k >= 4 (only necessary conditions are theorems); dt^2 scaling of the shadow energy, absence of drift and dt -> 0 convergence to BOMD are validated by probes, not proved.",
    "design_ref": "DESIGN.md section 5 C09",
}


def _xl(k, ksa=False, damp=None):
    import seqm.MolecularDynamics as MD

    sp = dict(method="AM1", scf_eps=1e-8, scf_converger=[1], sp2=[False])
    outp = {"molid": [0], "prefix": "/nonexistent/x", "print every": 0, "checkpoint every": 0, "xyz": 0, "h5": {}}
    old = MD.esdriver
    MD.esdriver = mdh.StubEngine
    try:
        if ksa:
            return MD.KSA_XL_BOMD(damp=damp, xl_bomd_params={"k": k, "max_rank": 2}, seqm_parameters=sp, timestep=0.5, Temp=0.0, output=outp)
        return MD.XL_BOMD(damp=damp, xl_bomd_params={"k": k}, seqm_parameters=sp, timestep=0.5, Temp=0.0, output=outp)
    finally:
        MD.esdriver = old


def corr_propagate(ctx: Ctx, drv):
    import types

    import torch

    rng = ctx.rng
    ks = range(3, 10)
    for k in ks:
        for ksa in (False, True):
            md = _xl(k, ksa)
            m = md.m
            coeff = md.coeff.detach().numpy()
            # __init__ coefficients vs model
            tab = md.coeffs[k]
            out = drv.ask("xlinit", f2b(tab[0]), f2b(tab[1]), *[f2b(c) for c in tab[2:]])
            ok = len(out) == 1 + 2 * m and b2f(out[0]) == float(md.coeff_D) and all(b2f(o) == float(c) for o, c in zip(out[1:], coeff))
            if not ksa:
                ctx.corr_case("XL_BOMD.__init__ coefficients", {"k": k}, [b2f(o) for o in out][:4], [float(md.coeff_D)] + coeff[:3].tolist(), ok, stratum=f"k={k}")
            phases = range(m) if (ctx.thorough or k in (3, 6, 9)) else [int(rng.integers(0, m))]
            for ph in phases:
                shape = (1, 4, 4)  # real densities have numel multiple of 16: torch.sum(dim=0) is then sequential (see DESIGN C09 tie)
                D = torch.as_tensor(rng.normal(size=shape))
                P = torch.as_tensor(rng.normal(size=shape))
                Pt = torch.as_tensor(rng.normal(size=(m,) + shape))
                mol = types.SimpleNamespace(dm=D, dP2dt2=D)
                Pn = md._propagate_P(P, Pt, ph, mol).numpy().reshape(-1)
                worst = 0
                nel = 4 if not ctx.thorough else 16
                for e in range(nel):
                    out = drv.ask("xlpropksa" if ksa else "xlprop", f2b(float(md.coeff_D)), m, ph, f2b(float(D.reshape(-1)[e])), f2b(float(P.reshape(-1)[e])),
                                  *[f2b(c) for c in coeff], *[f2b(float(Pt[q].reshape(-1)[e])) for q in range(m)])
                    okk = len(out) == 1 + m and b2f(out[0]) == float(Pn[e])
                    # slot written: m-1-ph
                    if okk:
                        newPt = [b2f(o) for o in out[1:]]
                        okk = newPt[m - 1 - ph] == float(Pn[e]) and all(newPt[q] == float(Pt[q].reshape(-1)[e]) for q in range(m) if q != m - 1 - ph)
                    worst += 0 if okk else 1
                ctx.corr_case("KSA._propagate_P" if ksa else "XL_BOMD._propagate_P", {"k": k, "phase": ph, "elements": nel}, f"{worst} mismatching elements", "bit-exact", worst == 0,
                              stratum=f"k={k}")


def corr_history(ctx: Ctx, drv):
    """record real one_step propagation calls of a stub-engine run and replay the whole history"""
    import seqm.MolecularDynamics as MD

    for k in ([3, 5, 9] if ctx.thorough else [4]):
        rec = []
        orig = MD.XL_BOMD._propagate_P

        def w(self, P, Pt, cindx, molecule):
            out = orig(self, P, Pt, cindx, molecule)
            rec.append((int(cindx), molecule.dm.detach().clone(), P.detach().clone(), Pt.detach().clone(), out.detach().clone(), self.coeff.detach().clone(), float(self.coeff_D), self.m))
            return out
        MD.XL_BOMD._propagate_P = w
        try:
            sc = dict(engine="xl", stub=True, mols=["h2o"], molid=[0], cad=dict(data=1), steps=3 * (k + 1) + 2, temp=300.0, seed=2, k=k)
            mdh.in_process_run(sc, tag="c09")
        finally:
            MD.XL_BOMD._propagate_P = orig
        bad = 0
        for i, (cindx, D, P, Pt, out, coeff, cD, m) in enumerate(rec):
            if cindx != i % m:
                bad += 1
            for e in (0, 5, 17):
                o = drv.ask("xlprop", f2b(cD), m, cindx, f2b(float(D.reshape(-1)[e])), f2b(float(P.reshape(-1)[e])), *[f2b(float(c)) for c in coeff], *[f2b(float(Pt[q].reshape(-1)[e])) for q in range(m)])
                if not (len(o) == 1 + m and b2f(o[0]) == float(out.reshape(-1)[e])):
                    bad += 1
        ctx.corr_case("XL_BOMD.one_step history (recorded)", {"k": k, "steps": len(rec)}, f"{bad} mismatches", "0", bad == 0, stratum=f"k={k}")


def _restart_case(inp):
    """run XL-BOMD/KSA (stub engine) with a checkpoint at EVERY step; for each checkpoint let the real run_from_checkpoint rebuild the
    auxiliary density and compare it with the density the uninterrupted run held after that step (every buffer phase, beyond one wrap)"""
    import shutil

    import torch

    import seqm.MolecularDynamics as MD

    k, eng = inp["k"], inp.get("engine", "xl")
    d = mdh.scratch_dir("c09r")
    prefix = os.path.join(d, "md")
    old = MD.esdriver
    MD.esdriver = mdh.StubEngine
    held = {}
    ckpts = {}
    o_step = MD.XL_BOMD._do_integrator_step
    o_save = MD.Molecular_Dynamics_Basic._atomic_save_checkpoint
    o_run = MD.Molecular_Dynamics_Basic.run
    try:
        def w_step(self, i, molecule, lp, **kw):
            r = o_step(self, i, molecule, lp, **kw)
            held[i + 1] = self._xl_ctx["P"].detach().clone()
            return r

        def w_save(ckpt, path):
            ckpts[int(ckpt["step_done"])] = {"Pt": ckpt["xl_ctx"]["Pt"].clone()}
            o_save(ckpt, path)
            shutil.copy(path, path + f".{int(ckpt['step_done'])}")
        MD.XL_BOMD._do_integrator_step = w_step
        MD.Molecular_Dynamics_Basic._atomic_save_checkpoint = staticmethod(w_save)
        sc = dict(engine=eng, stub=True, mols=["h2o"], molid=[0], cad=dict(data=1, ckpt=1), steps=inp["steps"], temp=300.0, seed=3, k=k)
        mol, md = mdh.make_md(sc, prefix)
        with contextlib.redirect_stdout(io.StringIO()):
            md.run(mol, sc["steps"], seed=3)
        MD.XL_BOMD._do_integrator_step = o_step
        MD.Molecular_Dynamics_Basic._atomic_save_checkpoint = staticmethod(o_save)
        restored = {}

        def fake_run(self, *a, **kw):
            restored["P"] = self._xl_ctx["P"].detach().clone()
            restored["Pt"] = self._xl_ctx["Pt"].detach().clone()
        MD.Molecular_Dynamics_Basic.run = fake_run
        out = []
        for s_done in sorted(ckpts):
            restored.clear()
            with contextlib.redirect_stdout(io.StringIO()):
                MD.Molecular_Dynamics_Basic.run_from_checkpoint(prefix + f".restart.pt.{s_done}")
            out.append({"step_done": s_done, "restored": restored["P"].reshape(-1)[:6].tolist(), "held": held[s_done].reshape(-1)[:6].tolist(),
                        "Pt": [restored["Pt"][q].reshape(-1)[:6].tolist() for q in range(k + 1)], "equal": bool(torch.equal(restored["P"], held[s_done]))})
        return out
    finally:
        MD.esdriver = old
        MD.XL_BOMD._do_integrator_step = o_step
        MD.Molecular_Dynamics_Basic._atomic_save_checkpoint = staticmethod(o_save)
        MD.Molecular_Dynamics_Basic.run = o_run
        shutil.rmtree(d, ignore_errors=True)


def corr_restart(ctx: Ctx, drv):
    rng = ctx.rng
    cases = [{"k": 3, "steps": 10, "engine": "xl"}, {"k": int(rng.integers(4, 10)), "steps": 0, "engine": "ksa"}]
    if ctx.thorough:
        cases += [{"k": k, "steps": 0, "engine": ["xl", "ksa"][k % 2]} for k in range(3, 10)]
    for c in cases:
        if not c["steps"]:
            c["steps"] = 2 * (c["k"] + 1) + 2
    for c, res in zip(cases, mdh.pmap(_restart_case, cases, nproc=4)):
        if isinstance(res, Exception) or res is None:
            ctx.obligation("restart-phase correspondence evaluated", False, repr(res)[-1200:], kind="harness")
            continue
        m = c["k"] + 1
        for r in res:
            # model: restore formula applied to the checkpointed history buffer, element by element
            okm = True
            for e in range(len(r["restored"])):
                ans = drv.ask("xlrestore", m, r["step_done"], *[f2b(r["Pt"][q][e]) for q in range(m)])
                okm = okm and len(ans) == 1 and ans[0] != "bad-op" and b2f(ans[0]) == r["restored"][e]
            ctx.corr_case("run_from_checkpoint XL history restore", {"k": c["k"], "engine": c["engine"], "step_done": r["step_done"], "phase": (r["step_done"] - 1) % m}, "model restore", r["restored"][:2], okm,
                          stratum=f"k={c['k']}/" + ("wrapped" if r["step_done"] > m else "first_pass"))
            # the property itself on the real code: restored density = density held by the uninterrupted run after that step
            ctx.probe_case("restart_phase", {"k": c["k"], "engine": c["engine"], "step_done": r["step_done"]}, r["equal"],
                           fields={"kinds": ["restart_phase"], "k": c["k"], "engine": c["engine"]}, observed=None if r["equal"] else {"restored": r["restored"][:3], "held": r["held"][:3]},
                           expected="restored auxiliary density equals the one held after step_done steps", predicate="bitwise", stratum="wrapped" if r["step_done"] > m else "first_pass")


def probe_restart_replay(inp):
    res = _restart_case({"k": inp["k"], "engine": inp.get("engine", "xl"), "steps": max(inp["step_done"], 2 * (inp["k"] + 1) + 2)})
    r = [x for x in res if x["step_done"] == inp["step_done"]][0]
    return {"ok": r["equal"], "observed": None if r["equal"] else {"restored": r["restored"][:3], "held": r["held"][:3]}, "expected": "restored = held", "predicate": "bitwise",
            "fields": {"kinds": ["restart_phase"], "k": inp["k"], "engine": inp.get("engine", "xl")}}


def probe_consistency(inp: Dict[str, Any]) -> Dict[str, Any]:
    """auxiliary density = converged density  =>  XL energy/forces = SCF energy/forces"""
    import torch

    from seqm.ElectronicStructure import Electronic_Structure
    from seqm.Molecule import Molecule
    from seqm.seqm_functions.constants import Constants

    names = inp["names"]
    s, x, ch, mu = esh.batch(names)
    lk = {}
    if inp.get("callable_param"):
        # parameters predicted by a model of the geometry (callable): the XL force must contain their geometry dependence exactly as the SCF force does
        param = inp["callable_param"]
        sp0 = esh.settings(method=inp.get("method", "AM1"), eps=1e-11, converger=[1])
        with contextlib.redirect_stdout(io.StringIO()):
            p0 = Molecule(Constants(), dict(sp0), torch.as_tensor(x), torch.as_tensor(s)).parameters[param].detach().clone()

        def fn(species, coords):
            real = (species > 0)
            r2 = (coords ** 2).sum(-1)[real]
            return {param: p0 * (1.0 + 0.01 * r2)}
        sp = esh.settings(method=inp.get("method", "AM1"), eps=1e-11, converger=[1], learned=[param])
        lk = {"learned_parameters": fn}
        with contextlib.redirect_stdout(io.StringIO()):
            mol = Molecule(Constants(), sp, torch.as_tensor(x), torch.as_tensor(s), learned_parameters=fn)
    else:
        sp = esh.settings(method=inp.get("method", "AM1"), eps=1e-11, converger=[1], **(inp.get("options") or {}))
        mol = Molecule(Constants(), sp, torch.as_tensor(x), torch.as_tensor(s))
    es = Electronic_Structure(sp)
    with contextlib.redirect_stdout(io.StringIO()):
        es(mol, **lk)
        E0, F0, P0 = mol.Etot.detach().clone(), mol.force.detach().clone(), mol.dm.detach().clone()
        es(mol, P0=P0, dm_prop="XL-BOMD", xl_bomd_params={"k": inp.get("k", 5)}, **lk)
    bad = []
    dE = float((mol.Etot - E0).abs().max())
    dF = float((mol.force - F0).abs().max())
    dP = float((mol.dm - P0).abs().max())
    if dE > 1e-8:
        bad.append(f"XL energy differs from SCF energy by {dE:.2e} at P = converged density")
    if dF > 1e-6:
        bad.append(f"XL forces differ from SCF forces by {dF:.2e}")
    if dP > 1e-7:
        bad.append(f"D[P] differs from P at the SCF solution by {dP:.2e}")
    return {"ok": not bad, "observed": bad, "expected": "E_XL(P*) = E_SCF, F_XL = F_SCF", "predicate": "", "fields": {"kinds": ["consistency"] if bad else [], "method": inp.get("method", "AM1")}}


def probe_stationary(inp: Dict[str, Any]) -> Dict[str, Any]:
    """a (practically) frozen system keeps its auxiliary density for 3(k+1) steps, i.e. through every buffer phase"""
    import torch

    import seqm.MolecularDynamics as MD
    from seqm.Molecule import Molecule
    from seqm.seqm_functions.constants import Constants

    k = inp["k"]
    sp = dict(method="AM1", scf_eps=1e-11, scf_converger=[1], sp2=[False])
    outp = {"molid": [0], "prefix": "/nonexistent/x", "print every": 0, "checkpoint every": 0, "xyz": 0, "h5": {}}
    s, x, ch, mu = esh.batch(inp["names"])
    mol = Molecule(Constants(), sp, torch.as_tensor(x), torch.as_tensor(s))
    xp = {"k": k}
    cls = MD.XL_BOMD
    if inp.get("ksa"):
        xp = {"k": k, "max_rank": 2, "err_threshold": 0.0, "T_el": 1500}
        cls = MD.KSA_XL_BOMD
    md = cls(xl_bomd_params=xp, seqm_parameters=sp, timestep=1e-7, Temp=0.0, output=outp)
    worst = 0.0
    with contextlib.redirect_stdout(io.StringIO()):
        md.initialize(mol)
        P0 = md._xl_ctx["P"].clone()
        for i in range(3 * (k + 1) + 1):
            md._do_integrator_step(i, mol, dict())
            worst = max(worst, float((md._xl_ctx["P"] - P0).abs().max()))
    bad = []
    if worst > inp.get("tol", 1e-8):
        bad.append(f"k={k}: auxiliary density of a frozen system drifts by {worst:.2e} within {3*(k+1)+1} steps")
    return {"ok": not bad, "observed": bad or [f"max drift {worst:.1e}"], "expected": "stationary system keeps P", "predicate": "", "fields": {"kinds": ["stationary"] if bad else [], "k": k, "ksa": bool(inp.get("ksa"))}}


def probe_aux_trace(inp: Dict[str, Any]) -> Dict[str, Any]:
    """the auxiliary density keeps its electron count along the trajectory (the recurrence weights sum to one - C09.weight_sum_exact - and every
    ingredient, D[P] and the Krylov/response update, is electron conserving), for every member of a zero-padded mixed batch, also with
    fractional occupations (high electronic temperature)"""
    import torch

    import seqm.MolecularDynamics as MD
    from seqm.Molecule import Molecule
    from seqm.seqm_functions.constants import Constants

    k = inp.get("k", 4)
    sp = dict(method=inp.get("method", "AM1"), scf_eps=1e-10, scf_converger=[1], sp2=[False])
    outp = {"molid": [0], "prefix": "/nonexistent/x", "print every": 0, "checkpoint every": 0, "xyz": 0, "h5": {}}
    s, x, ch, mu = esh.batch(inp["names"])
    mol = Molecule(Constants(), sp, torch.as_tensor(x), torch.as_tensor(s))
    if inp.get("ksa", True):
        xp = {"k": k, "max_rank": inp.get("max_rank", 3), "err_threshold": 0.0, "T_el": inp.get("T_el", 1500)}
        md = MD.KSA_XL_BOMD(xl_bomd_params=xp, seqm_parameters=sp, timestep=inp.get("dt", 0.4), Temp=inp.get("temp", 400.0), output=outp)
    else:
        md = MD.XL_BOMD(xl_bomd_params={"k": k}, seqm_parameters=sp, timestep=inp.get("dt", 0.4), Temp=inp.get("temp", 400.0), output=outp)
    tore = mol.const.tore.numpy()
    nel = tore[s].sum(1)
    worst, where = 0.0, None
    with contextlib.redirect_stdout(io.StringIO()):
        torch.manual_seed(inp.get("seed", 1))
        md.initialize(mol)
        for i in range(inp.get("steps", 6)):
            md._do_integrator_step(i, mol, dict())
            tr = torch.diagonal(md._xl_ctx["P"], dim1=-2, dim2=-1).sum(-1).numpy()
            d = np.abs(tr - nel)
            if d.max() > worst:
                worst, where = float(d.max()), (i + 1, int(d.argmax()))
    bad = []
    if worst > inp.get("tol", 1e-7):
        bad.append(f"auxiliary density of molecule {where[1]} ({inp['names'][where[1]]}) has trace off the electron count by {worst:.2e} at step {where[0]}")
    return {"ok": not bad, "observed": bad or [f"max trace defect {worst:.1e}"], "expected": "trace(P_aux) = number of electrons at every step", "predicate": "",
            "fields": {"kinds": ["aux_trace"] if bad else [], "ksa": bool(inp.get("ksa", True)), "T_el": inp.get("T_el", 1500)}}


def probe_xl_reinit(inp: Dict[str, Any]) -> Dict[str, Any]:
    """a driver object that has already run a trajectory starts the NEXT run (another molecule of the same shape, or the same one again) from the converged
    SCF density in every slot of the history buffer - the starting point all the C09 theorems assume (XLBuffer.init)"""
    import torch

    import seqm.MolecularDynamics as MD
    from seqm.Molecule import Molecule
    from seqm.seqm_functions.constants import Constants

    k = inp.get("k", 4)
    sp = dict(method="AM1", scf_eps=1e-10, scf_converger=[1], sp2=[False])
    outp = {"molid": [0], "prefix": "/nonexistent/x", "print every": 0, "checkpoint every": 0, "xyz": 0, "h5": {}}
    xp = {"k": k}
    cls = MD.XL_BOMD
    if inp.get("ksa"):
        xp = {"k": k, "max_rank": 2, "err_threshold": 0.0, "T_el": 1500}
        cls = MD.KSA_XL_BOMD
    rng = np.random.default_rng(inp.get("seed", 0))
    s, x, ch, mu = esh.batch(inp["names"])
    bad = []
    with contextlib.redirect_stdout(io.StringIO()):
        molA = Molecule(Constants(), sp, torch.as_tensor(x), torch.as_tensor(s))
        md = cls(xl_bomd_params=xp, seqm_parameters=sp, timestep=0.5, Temp=400.0, output=outp)
        torch.manual_seed(3)
        md.run(molA, inp.get("steps", 5), seed=3)
        xb = x + (s > 0)[..., None] * rng.normal(size=x.shape) * 0.06
        molB = Molecule(Constants(), sp, torch.as_tensor(xb), torch.as_tensor(s))
        md.initialize(molB)
        P, Pt = md._xl_ctx["P"].detach().numpy(), md._xl_ctx["Pt"].detach().numpy()
    ref = esh.run(s, xb, esh.settings(method="AM1", eps=1e-10))["dm"]
    d = float(np.abs(P - ref).max())
    if d > 1e-7:
        bad.append(f"second run on the same driver starts from an auxiliary density {d:.2e} away from the converged density of the new molecule")
    ds = float(np.abs(Pt - ref[None]).max())
    if ds > 1e-7:
        bad.append(f"history buffer of the second run is not filled with the converged density (max deviation {ds:.2e})")
    return {"ok": not bad, "observed": bad, "expected": "every run starts from P = D_scf in all buffer slots", "predicate": "", "fields": {"kinds": ["xl_reinit"] if bad else [], "k": k, "ksa": bool(inp.get("ksa"))}}


def probe_shadow(inp: Dict[str, Any]) -> Dict[str, Any]:
    """shadow-energy fluctuation ~ dt^2, no drift, and XL trajectory -> BOMD as dt -> 0"""
    names = inp["names"]
    T = inp["time"]
    k = inp["k"]
    res = {}
    for dt in (inp["dt"], inp["dt"] / 2):
        n = int(round(T / dt))
        r = c08._md(names, dt, inp.get("temp", 300.0), inp.get("seed", 3), False, n, engine="xl", k=k)
        d = r["mols"][0]["data"]
        e = d[:, 1] + d[:, 2]
        res[dt] = (float(e.max() - e.min()), float(abs(e[-1] - e[0])), r["final"][0])
    nb = int(round(T / (inp["dt"] / 2)))
    bo = c08._md(names, inp["dt"] / 2, inp.get("temp", 300.0), inp.get("seed", 3), False, nb, engine="basic")
    bad = []
    f1, d1, x1 = res[inp["dt"]]
    f2, d2, x2 = res[inp["dt"] / 2]
    ratio = f1 / max(f2, 1e-300)
    if not (2.5 < ratio < 6.5):
        bad.append(f"shadow-energy fluctuation ratio for dt halving is {ratio:.2f} (dt^2 needs ~4)")
    if d2 > 5 * f2 + 1e-7:
        bad.append(f"total energy drifts by {d2:.2e} eV (fluctuation {f2:.2e})")
    e1 = float(np.abs(x1 - bo["final"][0]).max())
    e2 = float(np.abs(x2 - bo["final"][0]).max())
    if e2 > 5e-3 or e2 > e1 * 1.2 + 1e-6:
        bad.append(f"XL trajectory does not approach BOMD: |x_XL - x_BO| = {e1:.2e} (dt) -> {e2:.2e} (dt/2)")
    return {"ok": not bad, "observed": bad or [f"ratio {ratio:.2f} drift {d2:.1e} dist {e1:.1e}->{e2:.1e}"], "expected": "dt^2 fluctuations, no drift, -> BOMD", "predicate": "",
            "fields": {"kinds": ["shadow"] if bad else [], "k": k}}


PROBES = {"xl_reinit": probe_xl_reinit, "aux_trace": probe_aux_trace, "consistency": probe_consistency, "stationary": probe_stationary, "shadow": probe_shadow, "restart_phase": probe_restart_replay}


def gen_cases(ctx: Ctx):
    rng = ctx.rng
    cases = []
    for i, nm in enumerate(["h2o", "ch2o", "nh3", "hcn"][: (4 if ctx.thorough else 2)]):
        cases.append(("consistency", {"names": [nm], "method": ["AM1", "PM3", "MNDO", "PM6_SP"][i], "k": int(rng.integers(3, 10))}))
    cases.append(("consistency", {"names": ["h2o", "h2"], "method": "AM1", "k": 4}))
    # optional Hamiltonian terms must be in the XL energy as well (AM1 pair correction acting between two methanes)
    cases.append(("consistency", {"names": ["ch4_dimer"], "method": "AM1", "k": int(rng.integers(3, 10)), "options": {"dispersion": True}}))
    cases.append(("consistency", {"names": [str(rng.choice(["h2o", "nh3", "ch2o"]))], "method": str(rng.choice(["AM1", "PM3"])), "k": int(rng.integers(3, 10)), "callable_param": str(rng.choice(["beta_s", "zeta_s", "alpha"]))}))
    # ... a parameter that also enters the isolated-atom energies (heat of formation = total energy - sum E_iso + sum heats: its geometry dependence is part of the force)
    cases.append(("consistency", {"names": [str(rng.choice(["h2o", "nh3", "ch2o", "hcn"]))], "method": str(rng.choice(["AM1", "PM3", "MNDO"])), "k": int(rng.integers(3, 10)), "callable_param": str(rng.choice(["U_ss", "U_pp", "g_ss"]))}))
    for k in (range(3, 10) if ctx.thorough else [3, int(rng.integers(4, 9)), 9]):
        cases.append(("stationary", {"names": ["h2o"], "k": int(k)}))
    cases.append(("stationary", {"names": ["h2o"], "k": 4, "ksa": True, "tol": 1e-7}))  # (KSA on an all-hydrogen molecule raises inside fock: noted in DESIGN "also seen")
    cases.append(("xl_reinit", {"names": [["h2o"], ["h2o", "ch4"]][ctx.seed % 2], "k": int(rng.integers(3, 10)), "ksa": bool(ctx.seed % 3 == 1), "steps": int(rng.integers(3, 9)), "seed": int(rng.integers(1, 999))}))
    # electron count of the auxiliary density: padded member of a mixed batch, fractional occupations, Krylov ranks 1..4
    cases.append(("aux_trace", {"names": ["ch2o", "h2o"], "k": int(rng.integers(3, 10)), "max_rank": int(rng.integers(3, 5)), "T_el": 20000, "seed": int(rng.integers(1, 99)), "steps": 7}))
    cases.append(("aux_trace", {"names": ["h2o", "ch2o"], "k": 4, "max_rank": int(rng.integers(1, 5)), "T_el": float(rng.choice([5000, 12000, 30000])), "seed": int(rng.integers(1, 99))}))
    cases.append(("aux_trace", {"names": ["h2o", "ch4"], "k": 4, "ksa": bool(ctx.seed % 2), "T_el": 3000, "seed": int(rng.integers(1, 99)), "method": str(rng.choice(["AM1", "PM3"]))}))
    cases.append(("shadow", {"names": ["h2"], "k": int(rng.choice([3, 5, 7])), "dt": 0.4, "time": 8.0, "seed": int(rng.integers(1, 99))}))
    if ctx.thorough:
        cases.append(("shadow", {"names": ["h2o"], "k": 6, "dt": 0.4, "time": 8.0, "seed": 5}))
    return cases


def _run_case(item):
    return PROBES[item[0]](item[1])


def run(ctx: Ctx):
    from ..translate import gen
    gen.regenerate(ctx, ["XLCoeffs"])
    # the Lyapunov certificate file must be reproducible from its generator (deterministic, exact fractions)
    p = subprocess.run([sys.executable, "-W", "ignore", "-m", "vf.translate.lyap", "--check"], cwd=VERIF, capture_output=True, text=True)
    ctx.obligation("Proofs/LyapK3.lean reproduced byte for byte by vf/translate/lyap.py", p.returncode == 0, (p.stdout + p.stderr)[-600:], kind="generated")
    leanproj.check_theorems(ctx, MODULE, THEOREMS)
    from .registry import THEOREMS_C09C, THEOREMS_RESUMETIE
    from ..translate import gen as _gen
    _gen.regenerate(ctx, ["ResumeIdx", "StepBody"])
    from .registry import THEOREMS_STEPTIE
    # translator tie: the auxiliary density is propagated BEFORE the force evaluation that uses it, and the nuclei move by velocity Verlet
    leanproj.check_theorems(ctx, "PyseqmVerif.Properties.StepTie", [t for t in THEOREMS_STEPTIE if "xl_" in t or "esmd" in t])
    leanproj.check_theorems(ctx, "PyseqmVerif.Properties.ResumeTie", [t for t in THEOREMS_RESUMETIE if "xlSlot" in t])
    leanproj.check_theorems(ctx, "PyseqmVerif.Properties.C09c", THEOREMS_C09C)
    drv = leanproj.Driver()
    try:
        try:
            corr_propagate(ctx, drv)
            corr_history(ctx, drv)
            corr_restart(ctx, drv)
        except Exception:
            import traceback
            ctx.obligation("correspondence adapters C09 ran", False, traceback.format_exc()[-1500:], kind="harness")
    finally:
        drv.close()
    cases = gen_cases(ctx)
    results = mdh.pmap(_run_case, cases, timeout=2400)
    for (name, c), r in zip(cases, results):
        if isinstance(r, Exception) or r is None:
            ctx.obligation(f"probe {name} evaluated", False, repr(r)[-1500:], kind="harness")
            continue
        ctx.probe_case(name, c, r["ok"], fields=r["fields"], observed=r["observed"], expected=r["expected"], predicate=r["predicate"], stratum=name)
