"""Independent oracle for the Slater overlaps and the assembly of the NDDO one-electron matrix (C06).

Nothing here calls the package's overlap code or its rotation.  The overlaps of normalised real
Slater-type orbitals are obtained by Gauss quadrature in prolate spheroidal coordinates straight
from the orbital definition

    chi_{n l m}(r) = (2 zeta)^{n+1/2} / sqrt((2n)!) * r^{n-1} exp(-zeta r) * Y_lm(theta, phi)

with real harmonics  s = 1/sqrt(4 pi),  p_z = sqrt(3/4pi) z/r,  p_x = sqrt(3/4pi) x/r,
p_y = sqrt(3/4pi) y/r.  A second, even more literal evaluation (`sto_overlap_cylindrical`, adaptive
scipy quadrature of the product of the two orbitals over the (rho, z) half plane) is provided to
arbitrate a disagreement.

Frames / conventions (all checked in `selftest`):
  * `sto_overlap_numeric`: orbital 1 sits at the origin, orbital 2 at (0, 0, R); BOTH orbitals are
    oriented along the same global axes (p_z of centre 2 points along +z, i.e. away from centre 1).
    m = 0 -> p_z (sigma), m = +1 -> p_x, m = -1 -> p_y (pi); s orbitals have m = 0.
  * molecular frame: S[mu on 1, nu on 2] with u = (R2 - R1)/|R2 - R1|:
        S(s, s)     = S_ss
        S(s, p_j)   = u_j S_s-sigma          S(p_i, s) = u_i S_sigma-s
        S(p_i, p_j) = u_i u_j S_sigma-sigma + (delta_ij - u_i u_j) S_pi-pi
  * lengths: the package converts Angstrom to bohr with MOPAC's a0 = 0.529167 A and drops the
    overlap block beyond 40 bohr; both are part of the mirrored model (`A0`, `OVERLAP_CUTOFF`).
  * Hcore: H(mu_A, nu_B) = 1/2 (beta_mu + beta_nu) S(mu, nu);
           H(mu_A, nu_A) = delta U_mu - sum_B Z_B (mu nu | s_B s_B), the two-centre integrals being
    taken from the package's `w` (verified elsewhere), pair block w[k, a, b] with a = packed index
    of the orbital pair on atom idxi[k], b = packed index on atom idxj[k], packed(mu >= nu) =
    mu (mu + 1)/2 + nu, orbital order s, px, py, pz.

Observed on the unchanged tree (see `main`): every closed-form branch of diat_overlap_PM6_SP.py
(1-1 ... 3-3, s/p_sigma/p_pi) and the assembly agree with the oracle to ~4e-14 (overlap) / 1e-12 eV
once converged B integrals are used; the package as shipped deviates by up to ~2.5e-7 in the overlap
(3e-6 eV in Hcore) whenever 1e-6 < |1/2 R (zeta_a - zeta_b)| <= 0.5 because `bintgs` truncates the
Maclaurin series of B_k after x^6 (as MOPAC's BINTGS does).  `exact_b_integrals` separates the two.

CLI:  PYTHONPATH=/verif python -m vf.oracle_nddo [--quick|--full|--selftest] [--modulo-bseries] [--deprecated] [--cone] [--lean]
"""
from __future__ import annotations

import contextlib
import io
import math
import sys
import time
from functools import lru_cache
from typing import Any, Dict, List, Optional, Sequence, Tuple

import numpy as np

A0 = 0.529167            # Angstrom per bohr used by MOPAC / the package (NOT the CODATA value)
OVERLAP_CUTOFF = 40.0    # bohr; beyond this the package sets the overlap block to zero
TOL_OVERLAP = 1e-7
TOL_HCORE = 1e-6         # eV
TOL_XB_OVERLAP = 1e-10   # with converged B integrals patched into the package (diagnostic mode)
TOL_XB_HCORE = 1e-8      # eV
BOUND_BSERIES_OVERLAP = 5e-6   # loose a-priori cap on what the x^6 truncation of B_k(|x| <= 0.5) may cause
BOUND_BSERIES_HCORE = 1e-4     # eV

# valence-shell principal quantum number and core charge, written down independently of the package
PQN = {1: 1, **{z: 2 for z in range(3, 10)}, **{z: 3 for z in range(11, 18)}}
ZCORE = {1: 1, 3: 1, 4: 2, 5: 3, 6: 4, 7: 5, 8: 6, 9: 7, 11: 1, 12: 2, 13: 3, 14: 4, 15: 5, 16: 6, 17: 7}


# ---------------------------------------------------------------------------------------------
# 1. numeric overlaps
@lru_cache(maxsize=None)
def _laguerre(n: int):
    return np.polynomial.laguerre.laggauss(n)


@lru_cache(maxsize=None)
def _legendre(n: int):
    return np.polynomial.legendre.leggauss(n)


def _sto_norm(n: int, zeta: float) -> float:
    return (2.0 * zeta) ** (n + 0.5) / math.sqrt(math.factorial(2 * n))


def _check_orbital(n, l, m):
    if n not in (1, 2, 3) or l not in (0, 1) or l >= n or abs(m) > l:
        raise ValueError(f"unsupported orbital n={n} l={l} m={m}")


def _sto_overlap_quadrature(n1, l1, m1, zeta1, n2, l2, m2, zeta2, R, n_xi=24, n_eta=None) -> float:
    _check_orbital(n1, l1, m1)
    _check_orbital(n2, l2, m2)
    if zeta1 <= 0 or zeta2 <= 0 or R < 0:
        raise ValueError("zeta must be positive and R non-negative")
    if m1 != m2:
        return 0.0                       # phi integral of cos/sin/1 products
    N = _sto_norm(n1, zeta1) * _sto_norm(n2, zeta2)
    if R == 0.0:
        # one-centre limit: orthogonal harmonics, radial integral int r^{n1+n2} e^{-(z1+z2) r} dr
        if l1 != l2:
            return 0.0
        return N * math.factorial(n1 + n2) / (zeta1 + zeta2) ** (n1 + n2 + 1)
    a = 0.5 * R
    p = a * (zeta1 + zeta2)
    q = a * (zeta1 - zeta2)
    if n_eta is None:
        n_eta = int(40 + 2.5 * abs(q))
    t, wt = _laguerre(n_xi)              # int_0^inf f(t) e^{-t} dt
    e, we = _legendre(n_eta)             # int_{-1}^{1} g(eta) d eta
    xi = 1.0 + t[:, None] / p            # xi = 1 + t/p,  d xi = dt / p
    eta = e[None, :]
    rA = a * (xi + eta)
    rB = a * (xi - eta)
    zA = a * (1.0 + xi * eta)            # z measured from centre 1
    zB = a * (xi * eta - 1.0)            # z measured from centre 2
    # (xi^2 - 1) written with t to avoid cancellation near xi = 1
    xim1 = t[:, None] / p
    rho2 = a * a * xim1 * (xi + 1.0) * (1.0 - eta) * (1.0 + eta)
    c_s, c_p = 1.0 / math.sqrt(4.0 * math.pi), math.sqrt(3.0 / (4.0 * math.pi))

    def radial_angular(n, l, m, r, z):
        # r^{n-1} * Y_lm without the phi dependence and (for |m| = 1) without the factor rho
        if l == 0:
            return c_s * r ** (n - 1)
        if m == 0:
            return c_p * r ** (n - 2) * z
        return c_p * r ** (n - 2)
    f = radial_angular(n1, l1, m1, rA, zA) * radial_angular(n2, l2, m2, rB, zB)
    if l1 == 1 and m1 != 0:              # both are pi orbitals of the same orientation
        f = f * rho2
        phi = math.pi                    # int cos^2 = int sin^2 = pi
    else:
        phi = 2.0 * math.pi
    jac = a ** 3 * (xi * xi - eta * eta)
    # e^{-p xi - q eta} = e^{-p} e^{-t} e^{-q eta}; e^{-t} is the Laguerre weight
    g = f * jac * np.exp(-q * eta)
    val = float(wt @ g @ we)
    return N * phi * val * math.exp(-p) / p


@lru_cache(maxsize=200000)
def _sto_overlap_cached(n1, l1, m1, zeta1, n2, l2, m2, zeta2, R):
    return _sto_overlap_quadrature(n1, l1, m1, zeta1, n2, l2, m2, zeta2, R)


def sto_overlap_numeric(n1: int, l1: int, m1: int, zeta1: float, n2: int, l2: int, m2: int, zeta2: float, R: float) -> float:
    """<chi_1 | chi_2>, chi_1 at the origin, chi_2 at (0,0,R) (bohr), same axes on both centres.

    Gauss-Laguerre (xi) x Gauss-Legendre (eta) product rule in prolate spheroidal coordinates,
    phi integrated analytically.  The integrand is polynomial(xi, eta) * exp(-p xi - q eta), so the
    xi rule is exact and the eta rule converges geometrically; observed error < 1e-13 (see selftest).
    """
    return _sto_overlap_cached(int(n1), int(l1), int(m1), float(zeta1), int(n2), int(l2), int(m2), float(zeta2), float(R))


def sto_overlap_cylindrical(n1, l1, m1, zeta1, n2, l2, m2, zeta2, R, epsabs=1e-11) -> float:
    """Same quantity by adaptive scipy quadrature over the (rho, z) half plane, written directly from
    the Cartesian definition of the two orbitals (no prolate coordinates, no shared code with the
    routine above except the normalisation constant).  Slow (~0.1-1 s); accuracy ~1e-9."""
    from scipy import integrate

    _check_orbital(n1, l1, m1)
    _check_orbital(n2, l2, m2)
    if m1 != m2:
        return 0.0
    N = _sto_norm(n1, zeta1) * _sto_norm(n2, zeta2)
    c_s, c_p = 1.0 / math.sqrt(4.0 * math.pi), math.sqrt(3.0 / (4.0 * math.pi))

    def orb(n, l, m, zeta, rho, z):
        r = math.hypot(rho, z)
        if r == 0.0:
            return c_s if (n == 1) else 0.0
        rad = r ** (n - 1) * math.exp(-zeta * r)
        if l == 0:
            return c_s * rad
        return c_p * rad * ((z / r) if m == 0 else (rho / r))
    phi = math.pi if (l1 == 1 and m1 != 0) else 2.0 * math.pi
    zmax = 60.0 / min(zeta1, zeta2)

    def integrand(rho, z):
        return orb(n1, l1, m1, zeta1, rho, z) * orb(n2, l2, m2, zeta2, rho, z - R) * rho
    tot = 0.0
    for (z0, z1) in ((-zmax, 0.0), (0.0, R), (R, R + zmax)):
        if z1 <= z0:
            continue
        v, _ = integrate.dblquad(integrand, z0, z1, 0.0, zmax, epsabs=epsabs, epsrel=1e-11)
        tot += v
    return N * phi * tot


# closed forms used only by the self test (equal exponents, x = zeta R, parallel axes)
def _cf_1s1s(x):
    return math.exp(-x) * (1 + x + x * x / 3)


def _cf_2s2s(x):
    return math.exp(-x) * (1 + x + 4 * x ** 2 / 9 + x ** 3 / 9 + x ** 4 / 45)


def _cf_2ppi(x):
    return math.exp(-x) * (1 + x + 2 * x ** 2 / 5 + x ** 3 / 15)


def _cf_2psigma(x):
    # both p_z along +z (Mulliken's "pointing at each other" convention has the opposite sign)
    return math.exp(-x) * (1 + x + x ** 2 / 5 - 2 * x ** 3 / 15 - x ** 4 / 15)


def selftest(verbose=True, slow=True) -> Dict[str, float]:
    out: Dict[str, float] = {}
    d = 0.0
    for z in (0.7, 1.2, 3.1):
        for R in (0.3, 1.0, 2.5, 7.0, 15.0):
            x = z * R
            d = max(d, abs(sto_overlap_numeric(1, 0, 0, z, 1, 0, 0, z, R) - _cf_1s1s(x)))
            d = max(d, abs(sto_overlap_numeric(2, 0, 0, z, 2, 0, 0, z, R) - _cf_2s2s(x)))
            d = max(d, abs(sto_overlap_numeric(2, 1, 1, z, 2, 1, 1, z, R) - _cf_2ppi(x)))
            d = max(d, abs(sto_overlap_numeric(2, 1, -1, z, 2, 1, -1, z, R) - _cf_2ppi(x)))
            d = max(d, abs(sto_overlap_numeric(2, 1, 0, z, 2, 1, 0, z, R) - _cf_2psigma(x)))
    out["closed_forms(1s1s,2s2s,2ppi,2psigma)"] = d
    # 1s-1s with different exponents (textbook): S = sqrt(1-t^2)^3 / (t p) * [ -(1-k) (2(1+k) + p)... ] -> use
    # the elementary result via A/B integrals written out by hand for this single case
    d = 0.0
    for (za, zb, R) in ((1.0, 1.6, 1.4), (0.8, 3.0, 2.0)):
        p, q = 0.5 * R * (za + zb), 0.5 * R * (za - zb)
        A0_, A2_ = math.exp(-p) / p, math.exp(-p) * (1 / p + 2 / p ** 2 + 2 / p ** 3)
        B0_ = 2 * math.sinh(q) / q
        B2_ = (math.exp(q) * (q * q - 2 * q + 2) - math.exp(-q) * (q * q + 2 * q + 2)) / q ** 3  # int eta^2 e^{-q eta}... sign-even
        ref = (za * zb) ** 1.5 * R ** 3 / 4 * (A2_ * B0_ - A0_ * B2_)
        d = max(d, abs(sto_overlap_numeric(1, 0, 0, za, 1, 0, 0, zb, R) - ref))
    out["1s1s_unequal_zeta_closed_form"] = d
    # normalisation and orthogonality at R -> 0
    d = 0.0
    for n in (1, 2, 3):
        for l in range(0, min(n, 2)):
            for m in ((0,) if l == 0 else (0, 1, -1)):
                for R in (0.0, 1e-7):     # S = 1 - O((zeta R)^2)
                    d = max(d, abs(sto_overlap_numeric(n, l, m, 1.3, n, l, m, 1.3, R) - 1.0))
    out["normalisation_R_to_0"] = d
    # S(s, p_sigma) = O(zeta R)
    out["orthogonality_s_p_R_to_0"] = max(abs(sto_overlap_numeric(n, 0, 0, 1.3, n, 1, 0, 1.3, 1e-11)) for n in (2, 3))
    # convergence: doubling the rules does not change the value
    d = 0.0
    rng = np.random.default_rng(1)
    combos = [(n1, l1, n2, l2, m) for n1 in (1, 2, 3) for n2 in (1, 2, 3) for l1 in range(min(n1, 2)) for l2 in range(min(n2, 2)) for m in (0, 1) if (m == 0 or (l1 == 1 and l2 == 1))]
    for (n1, l1, n2, l2, m) in combos:
        za, zb = rng.uniform(0.6, 4.0, size=2)
        for R in (0.9, 2.1, 4.3, 9.5, 30.0):
            v1 = _sto_overlap_quadrature(n1, l1, m, za, n2, l2, m, zb, R)
            q = 0.5 * R * abs(za - zb)
            v2 = _sto_overlap_quadrature(n1, l1, m, za, n2, l2, m, zb, R, n_xi=48, n_eta=int(2 * (40 + 2.5 * q)))
            d = max(d, abs(v1 - v2))
    out["quadrature_convergence"] = d
    # exchange symmetry: swapping the centres = reflecting z: each p_sigma changes sign
    d = 0.0
    for (n1, l1, n2, l2, m) in combos:
        za, zb, R = 1.1, 2.3, 2.2
        par = (-1) ** ((l1 if m == 0 else 0) + (l2 if m == 0 else 0))
        d = max(d, abs(sto_overlap_numeric(n1, l1, m, za, n2, l2, m, zb, R) - par * sto_overlap_numeric(n2, l2, m, zb, n1, l1, m, za, R)))
    out["exchange_parity"] = d
    if slow:
        d = 0.0
        for (n1, l1, n2, l2, m, za, zb, R) in ((1, 0, 2, 1, 0, 1.2, 1.8, 2.0), (2, 1, 3, 1, 0, 2.2, 1.4, 3.0), (3, 1, 3, 1, 1, 1.6, 2.0, 3.5), (3, 0, 2, 1, 0, 1.1, 2.7, 2.4), (3, 0, 3, 0, 0, 0.9, 1.9, 4.0)):
            d = max(d, abs(sto_overlap_numeric(n1, l1, m, za, n2, l2, m, zb, R) - sto_overlap_cylindrical(n1, l1, m, za, n2, l2, m, zb, R)))
        out["prolate_vs_cylindrical_bruteforce"] = d
    if verbose:
        for k, v in out.items():
            print(f"  selftest {k:45s} {v:.2e}")
    return out


# ---------------------------------------------------------------------------------------------
# 2. molecular-frame overlap block
def local_overlaps(Z1, zs1, zp1, Z2, zs2, zp2, R) -> Dict[str, float]:
    """the (up to) five distinct local-frame overlaps; key = '<orbital on 1>-<orbital on 2>'"""
    n1, n2 = PQN[int(Z1)], PQN[int(Z2)]
    p1, p2 = int(Z1) > 1, int(Z2) > 1
    loc = {"s-s": sto_overlap_numeric(n1, 0, 0, zs1, n2, 0, 0, zs2, R)}
    if p2:
        loc["s-sigma"] = sto_overlap_numeric(n1, 0, 0, zs1, n2, 1, 0, zp2, R)
    if p1:
        loc["sigma-s"] = sto_overlap_numeric(n1, 1, 0, zp1, n2, 0, 0, zs2, R)
    if p1 and p2:
        loc["sigma-sigma"] = sto_overlap_numeric(n1, 1, 0, zp1, n2, 1, 0, zp2, R)
        loc["pi-pi"] = sto_overlap_numeric(n1, 1, 1, zp1, n2, 1, 1, zp2, R)
    return loc


def overlap_block_reference(Z1, zs1, zp1, Z2, zs2, zp2, Rvec, cutoff=OVERLAP_CUTOFF) -> np.ndarray:
    """overlap block S[mu on atom 1, nu on atom 2] in the molecular frame; Rvec = R2 - R1 in bohr.
    Shape (4 or 1) x (4 or 1); orbital order s, px, py, pz."""
    Rvec = np.asarray(Rvec, dtype=float)
    R = float(np.sqrt(Rvec @ Rvec))
    u = Rvec / R
    d1, d2 = (4 if int(Z1) > 1 else 1), (4 if int(Z2) > 1 else 1)
    S = np.zeros((d1, d2))
    if R > cutoff:
        return S
    loc = local_overlaps(Z1, zs1, zp1, Z2, zs2, zp2, R)
    S[0, 0] = loc["s-s"]
    if d2 == 4:
        S[0, 1:] = u * loc["s-sigma"]
    if d1 == 4:
        S[1:, 0] = u * loc["sigma-s"]
    if d1 == 4 and d2 == 4:
        uu = np.outer(u, u)
        S[1:, 1:] = uu * loc["sigma-sigma"] + (np.eye(3) - uu) * loc["pi-pi"]
    return S


def local_from_block(S: np.ndarray, u: np.ndarray) -> Dict[str, float]:
    """project a molecular-frame 4x4 (zero padded) block onto the local invariants"""
    u = np.asarray(u, dtype=float)
    out = {"s-s": float(S[0, 0]), "s-sigma": float(S[0, 1:4] @ u), "sigma-s": float(u @ S[1:4, 0])}
    P = S[1:4, 1:4]
    out["sigma-sigma"] = float(u @ P @ u)
    out["pi-pi"] = float((np.trace(P) - u @ P @ u) / 2.0)
    return out


# ---------------------------------------------------------------------------------------------
# package access
def _pkg():
    from . import esh  # noqa: F401  (sets sys.path, default dtype float64)
    import torch
    from seqm.Molecule import Molecule
    from seqm.seqm_functions.constants import Constants
    from seqm.seqm_functions.hcore import hcore
    return torch, Molecule, Constants, hcore


def build_molecule(method: str, species: Sequence[int], coords_angstrom):
    """single-molecule `Molecule`; species must be non-increasing (package requirement)"""
    torch, Molecule, Constants, _ = _pkg()
    const = Constants()
    sp = {"method": method, "scf_eps": 1e-6, "scf_converger": [1], "sp2": [False], "UHF": True}
    nel = sum(ZCORE[int(z)] for z in species)
    mult = 1.0 if nel % 2 == 0 else 2.0
    x = torch.as_tensor(np.asarray(coords_angstrom, dtype=float)).reshape(1, len(species), 3).clone()
    with contextlib.redirect_stdout(io.StringIO()):
        mol = Molecule(const, sp, x, torch.tensor([list(map(int, species))]), mult=torch.tensor([mult]))
    return mol


def _mol_arrays(mol):
    if int(mol.nmol) != 1:
        raise ValueError("oracle handles one molecule at a time")
    Z = [int(z) for z in mol.species.reshape(-1).tolist()]
    if any(z not in PQN for z in Z):
        raise ValueError("only H, Li-F, Na-Cl without padding are supported")
    X = mol.coordinates.detach().numpy().reshape(len(Z), 3).astype(float)
    par = {k: mol.parameters[k].detach().numpy().astype(float) for k in ("U_ss", "U_pp", "zeta_s", "zeta_p", "beta_s", "beta_p")}
    if mol.parameters.get("Kbeta", None) is not None:
        raise ValueError("pairwise beta scaling present: not part of the MNDO/AM1/PM3 model")
    return Z, X, par


def package_hcore_matrix(mol, M=None) -> np.ndarray:
    """the package's Hcore as a full symmetric (4 molsize)^2 matrix"""
    torch, _, _, hcore = _pkg()
    if M is None:
        with torch.no_grad(), contextlib.redirect_stdout(io.StringIO()):
            M = hcore(mol)[0]
    n = int(mol.molsize)
    H = M.detach().reshape(1, n, n, 4, 4).transpose(2, 3).reshape(4 * n, 4 * n)   # as scf_loop.reshape_Hcore
    H = H.triu() + H.triu(1).T
    return H.numpy().copy()


# ---------------------------------------------------------------------------------------------
# 3. reference Hcore
def _packed(mu: int, nu: int) -> int:
    a, b = (mu, nu) if mu >= nu else (nu, mu)
    return a * (a + 1) // 2 + b


def hcore_reference(mol, w=None, parts=False):
    """full one-electron matrix ((4 natoms)^2, zero rows/columns for the p slots of hydrogen) of a
    di- or triatomic `Molecule` from the shipped parameters, the numeric overlaps and w."""
    torch, _, _, hcore = _pkg()
    Z, X, par = _mol_arrays(mol)
    nat = len(Z)
    if w is None:
        with torch.no_grad(), contextlib.redirect_stdout(io.StringIO()):
            w = hcore(mol)[1]
    w = w.detach().numpy()
    idxi = [int(i) for i in mol.idxi.tolist()]
    idxj = [int(j) for j in mol.idxj.tolist()]
    if w.shape != (len(idxi), 10, 10):
        raise ValueError(f"unexpected shape of the two-electron block array {w.shape}")
    nao = [4 if z > 1 else 1 for z in Z]
    H = np.zeros((4 * nat, 4 * nat))
    Sfull = np.eye(4 * nat)
    # one-centre: U
    for A in range(nat):
        H[4 * A, 4 * A] = par["U_ss"][A]
        for k in range(1, nao[A]):
            H[4 * A + k, 4 * A + k] = par["U_pp"][A]
    # one-centre: attraction by the other cores
    for k, (i, j) in enumerate(zip(idxi, idxj)):
        for (A, B) in ((i, j), (j, i)):
            for mu in range(nao[A]):
                for nu in range(nao[A]):
                    eri = w[k, _packed(mu, nu), 0] if A == i else w[k, 0, _packed(mu, nu)]
                    H[4 * A + mu, 4 * A + nu] -= ZCORE[Z[B]] * eri
    # two-centre: resonance integrals
    for A in range(nat):
        for B in range(nat):
            if A == B:
                continue
            Rvec = (X[B] - X[A]) / A0
            S = overlap_block_reference(Z[A], par["zeta_s"][A], par["zeta_p"][A], Z[B], par["zeta_s"][B], par["zeta_p"][B], Rvec)
            bA = [par["beta_s"][A]] + [par["beta_p"][A]] * 3
            bB = [par["beta_s"][B]] + [par["beta_p"][B]] * 3
            for mu in range(nao[A]):
                for nu in range(nao[B]):
                    H[4 * A + mu, 4 * B + nu] = 0.5 * (bA[mu] + bB[nu]) * S[mu, nu]
                    Sfull[4 * A + mu, 4 * B + nu] = S[mu, nu]
    if parts:
        return H, Sfull, nao
    return H


# ---------------------------------------------------------------------------------------------
# 4. comparison
def package_overlap_blocks(mol) -> Dict[Tuple[int, int], np.ndarray]:
    """the package's own overlap routine (the one hcore() uses) on the pair list of `mol`"""
    torch, _, _, _ = _pkg()
    from seqm.seqm_functions.diat_overlap_PM6_SP import diatom_overlap_matrix_PM6_SP

    zeta = torch.stack([mol.parameters["zeta_s"], mol.parameters["zeta_p"]], dim=1)
    with torch.no_grad():
        di = diatom_overlap_matrix_PM6_SP(mol.ni, mol.nj, mol.xij, mol.rij, zeta[mol.idxi], zeta[mol.idxj], mol.const.qn_int)
        di = di.clone()
        di[mol.rij > OVERLAP_CUTOFF] = 0.0
    return {(int(i), int(j)): di[k].numpy().copy() for k, (i, j) in enumerate(zip(mol.idxi.tolist(), mol.idxj.tolist()))}


def package_overlap_blocks_deprecated(mol) -> Dict[Tuple[int, int], np.ndarray]:
    torch, _, _, _ = _pkg()
    from seqm.seqm_functions.diat_overlap import diatom_overlap_matrix

    zeta = torch.stack([mol.parameters["zeta_s"], mol.parameters["zeta_p"]], dim=1)
    with torch.no_grad(), contextlib.redirect_stdout(io.StringIO()):
        di = diatom_overlap_matrix(mol.ni, mol.nj, mol.xij, mol.rij, zeta[mol.idxi], zeta[mol.idxj], mol.const.qn_int)
    return {(int(i), int(j)): di[k].numpy().copy() for k, (i, j) in enumerate(zip(mol.idxi.tolist(), mol.idxj.tolist()))}


@contextlib.contextmanager
def exact_b_integrals():
    """DIAGNOSTIC ONLY.  Replace, in this process (never on disk), the package's auxiliary integrals
    B_k(x) = int_{-1}^{1} eta^k exp(-x eta) d eta, k = 0..12 (`bintgs`) by a Gauss-Legendre evaluation.
    The package (like MOPAC's BINTGS) sums the Maclaurin series only up to x^6 for 1e-6 < |x| <= 0.5,
    which limits its overlaps to ~1e-7; with this patch the remaining difference to the oracle isolates
    the closed-form overlap expressions, their prefactors and the rotation."""
    torch = _pkg()[0]
    import seqm.seqm_functions.diat_overlap as D2
    import seqm.seqm_functions.diat_overlap_PM6_SP as D1

    def bintgs(x0, jcall):
        x = x0.detach().reshape(-1).numpy().astype(float)
        n = 64 + 3 * int(math.ceil(float(np.abs(x).max()) if x.size else 0.0))
        e, we = _legendre(n)
        k = np.arange(13)
        vals = ((e[None, None, :] ** k[None, :, None]) * np.exp(-x[:, None, None] * e[None, None, :]) * we[None, None, :]).sum(-1)
        return torch.as_tensor(vals, dtype=x0.dtype)
    saved = (D1.bintgs, D2.bintgs)
    D1.bintgs = D2.bintgs = bintgs
    try:
        yield
    finally:
        D1.bintgs, D2.bintgs = saved


def _b_series_regime(Z, X, par) -> bool:
    """does any B-integral argument 1/2 R (zeta_a - zeta_b) of any pair fall into the truncated-series window?"""
    for A in range(len(Z)):
        for B in range(A + 1, len(Z)):
            R = float(np.linalg.norm(X[B] - X[A])) / A0
            za = [par["zeta_s"][A]] + ([par["zeta_p"][A]] if Z[A] > 1 else [])
            zb = [par["zeta_s"][B]] + ([par["zeta_p"][B]] if Z[B] > 1 else [])
            if any(1e-6 < abs(0.5 * R * (a - b)) <= 0.5 for a in za for b in zb):
                return True
    return False


def _compare_once(mol, Z, X, par, Hr, Sr, nao, deprecated=False) -> Dict[str, Any]:
    torch, _, _, hcore = _pkg()
    nat = len(Z)
    with torch.no_grad(), contextlib.redirect_stdout(io.StringIO()):
        M = hcore(mol)[0]
    Hp = package_hcore_matrix(mol, M)
    real = np.zeros(4 * nat, dtype=bool)
    for A in range(nat):
        real[4 * A: 4 * A + nao[A]] = True
    res: Dict[str, Any] = {"d_res": 0.0, "d_diag": 0.0, "d_ovl": 0.0, "d_ovl_from_H": 0.0, "d_ghost": 0.0, "worst": None}
    # entries in slots that do not exist (p on hydrogen) must be zero in the package
    ghost = ~(real[:, None] & real[None, :])
    res["d_ghost"] = float(np.abs(Hp[ghost]).max()) if ghost.any() else 0.0
    So = package_overlap_blocks(mol)
    Sd = package_overlap_blocks_deprecated(mol) if deprecated else None
    if deprecated:
        res["d_ovl_deprecated"] = 0.0
    for A in range(nat):
        a = slice(4 * A, 4 * A + 4)
        res["d_diag"] = max(res["d_diag"], float(np.abs(Hp[a, a] - Hr[a, a]).max()))
        for B in range(A + 1, nat):
            b = slice(4 * B, 4 * B + 4)
            res["d_res"] = max(res["d_res"], float(np.abs(Hp[a, b] - Hr[a, b]).max()))
            Sref = Sr[a, b]
            # (a) overlap recovered from the resonance block
            bA = np.array([par["beta_s"][A]] + [par["beta_p"][A]] * 3)
            bB = np.array([par["beta_s"][B]] + [par["beta_p"][B]] * 3)
            bs = 0.5 * (bA[:, None] + bB[None, :])
            ok = (np.abs(bs) > 1e-8) & real[a][:, None] & real[b][None, :]
            if ok.any():
                res["d_ovl_from_H"] = max(res["d_ovl_from_H"], float(np.abs(Hp[a, b][ok] / bs[ok] - Sref[ok]).max()))
            # (b) the package's overlap routine directly, decomposed into local invariants
            Spk = So[(A, B)]
            dS = float(np.abs(Spk - Sref).max())
            if dS >= res["d_ovl"]:
                res["d_ovl"] = dS
                u = (X[B] - X[A]) / np.linalg.norm(X[B] - X[A])
                lp, lr = local_from_block(Spk, u), local_from_block(Sref, u)
                key = max(lp, key=lambda k: abs(lp[k] - lr[k]))
                res["worst"] = {"pair": (Z[A], Z[B]), "element": key, "package": lp[key], "oracle": lr[key], "R_bohr": float(np.linalg.norm(X[B] - X[A]) / A0)}
            if deprecated:
                res["d_ovl_deprecated"] = max(res["d_ovl_deprecated"], float(np.abs(Sd[(A, B)] - Sref).max()))
    return res


def compare_molecule(mol, deprecated=False, exact_b=True) -> Dict[str, Any]:
    """package vs oracle for one molecule.  Keys d_* : the package as it is;  keys d_*_xb : the package
    with its B-integral series replaced by converged values (see `exact_b_integrals`)."""
    torch, _, _, hcore = _pkg()
    Z, X, par = _mol_arrays(mol)
    with torch.no_grad(), contextlib.redirect_stdout(io.StringIO()):
        w = hcore(mol)[1]
    Hr, Sr, nao = hcore_reference(mol, w=w, parts=True)
    res: Dict[str, Any] = {"Z": Z}
    res.update(_compare_once(mol, Z, X, par, Hr, Sr, nao, deprecated=deprecated))
    # conventions cross-checked against the package's own tables
    const = mol.const
    res["conv_ok"] = bool(abs(float(const.length_conversion_factor) - 1.0 / A0) < 1e-15
                          and all(int(const.qn_int[z]) == PQN[z] and float(const.tore[z]) == ZCORE[z] for z in Z))
    res["ok"] = bool(res["d_ovl"] <= TOL_OVERLAP and res["d_ovl_from_H"] <= TOL_OVERLAP and res["d_res"] <= TOL_HCORE
                     and res["d_diag"] <= TOL_HCORE and res["d_ghost"] == 0.0 and res["conv_ok"])
    res["b_series"] = _b_series_regime(Z, X, par)
    if exact_b:
        with exact_b_integrals():
            xb = _compare_once(mol, Z, X, par, Hr, Sr, nao, deprecated=deprecated)
        for k in ("d_ovl", "d_ovl_from_H", "d_res", "d_diag"):
            res[k + "_xb"] = xb[k]
        if deprecated:
            res["d_ovl_deprecated_xb"] = xb["d_ovl_deprecated"]
        res["worst_xb"] = xb["worst"]
        res["ok_xb"] = bool(xb["d_ovl"] <= TOL_XB_OVERLAP and xb["d_ovl_from_H"] <= TOL_XB_OVERLAP and xb["d_res"] <= TOL_XB_HCORE
                            and xb["d_diag"] <= TOL_XB_HCORE and xb["d_ghost"] == 0.0 and res["conv_ok"])
        # differences beyond the plain tolerance are "explained" iff they vanish with converged B integrals,
        # the geometry is inside the truncated-series window and they stay below the truncation bound
        res["ok_modulo_bseries"] = bool(res["ok_xb"] and (res["ok"] or (res["b_series"] and res["d_ovl"] <= BOUND_BSERIES_OVERLAP and res["d_res"] <= BOUND_BSERIES_HCORE
                                                                       and res["d_diag"] <= TOL_HCORE and res["d_ghost"] == 0.0)))
    return res


def _skip_reason(mol) -> Optional[str]:
    p = mol.parameters
    if float(p["zeta_s"].abs().min()) == 0.0 or float(p["g_ss"].abs().min()) == 0.0:
        return "element not parametrised in this table"
    return None


def compare_hcore(method: str, z1: int, z2: int, R_angstrom: float, direction, origin=(0.13, -0.21, 0.34), deprecated=False) -> Dict[str, Any]:
    """diatomic z1-z2 at distance R along `direction` (the heavier atom is put first, as the package
    requires, at `origin`).  Returns max abs differences package - oracle:
      d_ovl         overlap block, package routine vs oracle (dimensionless)
      d_ovl_from_H  overlap recovered from the resonance block / (1/2 (beta_mu + beta_nu))
      d_res         two-centre block of Hcore (eV)
      d_diag        one-centre blocks of Hcore (eV)
      d_ghost       package entries in non-existent orbital slots (must be 0)"""
    d = np.asarray(direction, dtype=float)
    d = d / np.linalg.norm(d)
    zs = sorted([int(z1), int(z2)], reverse=True)
    x = np.array([origin, np.asarray(origin) + R_angstrom * d], dtype=float)
    base = {"method": method, "z1": zs[0], "z2": zs[1], "R": float(R_angstrom), "direction": d.tolist(),
            "cls": "-".join(map(str, sorted((PQN[zs[0]], PQN[zs[1]]))))}
    try:
        mol = build_molecule(method, zs, x)
    except Exception as e:  # noqa: BLE001
        return {**base, "skip": f"{type(e).__name__}: {str(e)[:80]}"}
    why = _skip_reason(mol)
    if why:
        return {**base, "skip": why}
    return {**base, **compare_molecule(mol, deprecated=deprecated)}


def compare_hcore_molecule(method: str, species: Sequence[int], coords_angstrom, deprecated=False) -> Dict[str, Any]:
    base = {"method": method, "species": list(map(int, species)), "cls": "tri" if len(species) == 3 else f"{len(species)}-atom"}
    try:
        mol = build_molecule(method, species, coords_angstrom)
    except Exception as e:  # noqa: BLE001
        return {**base, "skip": f"{type(e).__name__}: {str(e)[:80]}"}
    why = _skip_reason(mol)
    if why:
        return {**base, "skip": why}
    return {**base, **compare_molecule(mol, deprecated=deprecated)}


# ---------------------------------------------------------------------------------------------
# 5. sweep
ELEMENTS = (1, 3, 4, 5, 6, 7, 8, 9, 11, 12, 13, 14, 15, 16, 17)
TRIATOMICS = (
    ([8, 1, 1], [[0.0, 0.0, 0.0], [0.9584, 0.02, 0.01], [-0.24, 0.927, -0.03]]),
    ([7, 6, 1], [[1.16, 0.02, 0.0], [0.0, 0.0, 0.0], [-1.06, 0.01, 0.03]]),
    ([16, 8, 8], [[0.0, 0.0, 0.0], [1.43, 0.05, 0.02], [-0.70, 1.25, 0.0]]),
    ([17, 6, 1], [[1.78, 0.02, 0.01], [0.0, 0.0, 0.0], [-0.36, 1.03, 0.02]]),
    ([14, 9, 1], [[0.1, 0.0, 0.0], [1.2, 1.1, 0.3], [-0.9, 0.8, -0.75]]),
    ([15, 13, 3], [[0.0, 0.2, 0.0], [1.9, 0.5, 1.1], [-1.4, 1.3, -0.9]]),
    ([17, 17, 16], [[0.0, 0.0, 0.0], [1.1, 1.6, 0.2], [-1.5, 0.9, 1.0]]),
    ([1, 1, 1], [[0.0, 0.0, 0.0], [0.8, 0.1, 0.0], [0.3, 0.7, 0.2]]),
)


# systems with a pair beyond the package's overlap cut-off (40 bohr = 21.17 A) next to bonded heteronuclear pairs: the slow path of hcore()
FAR_SYSTEMS = (
    ([8, 1, 1, 1, 1], [[0.0, 0.0, 0.0], [0.9584, 0.02, 0.01], [-0.24, 0.927, -0.03], [14.0, 17.0, 9.0], [14.5, 17.4, 9.3]]),
    ([17, 9, 1, 1], [[0.0, 0.0, 0.0], [18.0, 20.0, 12.0], [1.27, 0.03, 0.02], [18.6, 20.5, 12.5]]),
)


def _directions(ndir: int, rng: np.random.Generator) -> List[np.ndarray]:
    dirs = []
    for _ in range(ndir):
        v = rng.normal(size=3)
        dirs.append(v / np.linalg.norm(v))
    return dirs


def sweep(methods=("MNDO", "AM1", "PM3"), elements=ELEMENTS, distances=(0.6, 1.1, 2.3, 5.0), ndir=2, seed=0, triatomics=True, deprecated=False) -> List[Dict[str, Any]]:
    rng = np.random.default_rng(seed)
    results: List[Dict[str, Any]] = []
    pairs = [(a, b) for a in elements for b in elements if a >= b]
    for method in methods:
        for (a, b) in pairs:
            skipped = False
            for R in distances:
                if skipped:
                    break
                for d in _directions(ndir, rng):
                    r = compare_hcore(method, a, b, R, d, deprecated=deprecated)
                    results.append(r)
                    if "skip" in r:
                        skipped = True
                        break
        if triatomics:
            for (zs, xs) in TRIATOMICS:
                if all(z in elements for z in zs):
                    results.append(compare_hcore_molecule(method, zs, xs, deprecated=deprecated))
            for (zs, xs) in FAR_SYSTEMS:
                r = compare_hcore_molecule(method, zs, xs, deprecated=deprecated)
                r["cls"] = "far-pair"
                results.append(r)
    return results


def cone_probe(method="AM1", z1=8, z2=6, R_angstrom=1.2, eps=3e-4) -> Dict[str, Any]:
    """Informational: bond direction (-1, eps, 0), i.e. inside the antipodal cone (|1 + x| < 1e-7) of the
    package's rotate_with_quaternion as used for the overlaps.  The package then uses the exact 180 degree flip
    instead of the rotation onto the bond: direction cosines off by O(eps) (observed d_ovl ~ 0.5 eps).  This is
    the already known rotation-cone finding (F2), seen here from the overlap side; random sweeps never hit it."""
    return compare_hcore(method, z1, z2, R_angstrom, [-1.0, eps, 0.0])


# ---------------------------------------------------------------------------------------------
# 6. tie to the Lean model (PyseqmVerif/Model/Overlap.lean, theorems in Properties/C06b.lean)
def lean_crosscheck(methods=("MNDO", "AM1", "PM3"), elements=ELEMENTS, distances=(0.7, 1.3, 2.9), seed=0) -> Dict[str, Any]:
    """three-way tie through the compiled Lean driver:
      (a) ops `aintgs jcall x` / `bintgs x`  vs the package's aintgs/bintgs.  Bit-identical except where
          torch.exp and libm exp differ by 1 ulp; the upward recursion b_{k+1} = .. + k b_k/x amplifies that
          (16 ulp seen in b7 at x = 2.56; up to ~1e5 ulp possible just above |x| = 0.5): tolerance 1e-10 relative
      (b) op  `sto_local n1 n2 zsa zpa zsb zpb R` vs the package's overlap block along +z, for every
          parametrised element pair of every table.  Same formulas, same operation order; the residual
          (~1e-11) is the 1-ulp exp difference amplified by the cancellation in A_i B_j sums: tolerance 1e-9
      (c) op  `sto_overlap n1 l1 n2 l2 m z1 z2 R` vs the quadrature oracle: <= 1e-9 outside the truncated
          B-series window (conditioning noise of the closed forms ~1e-11), <= BOUND_BSERIES_OVERLAP inside"""
    torch = _pkg()[0]
    import seqm.seqm_functions.diat_overlap_PM6_SP as D
    from seqm.seqm_functions.constants import Constants

    from . import leanproj
    from .core import b2f, f2b

    rng = np.random.default_rng(seed)
    drv = leanproj.Driver()
    out: Dict[str, Any] = {"aux_max_ulp": 0.0, "local_vs_package": 0.0, "overlap_vs_oracle_exact_regime": 0.0, "overlap_vs_oracle_series_regime": 0.0, "n_pairs": 0, "bad_op": 0}

    def ulps(a, b):
        if a == b:
            return 0.0
        return abs(a - b) / max(np.spacing(abs(b)), 5e-324)
    try:
        xs = list(rng.uniform(-12, 12, size=30)) + [0.0, 1e-7, -1e-6, 1.0000001e-6, 0.3, -0.5, 0.5, 0.5000000001, -0.49999]
        for x in xs:
            b = D.bintgs(torch.tensor([float(x)]), torch.tensor([6]))[0, :7].tolist()
            l = drv.ask("bintgs", f2b(x))
            if len(l) != 7:
                out["bad_op"] += 1
                continue
            out["aux_max_ulp"] = max(out["aux_max_ulp"], max(ulps(b2f(u), v) for u, v in zip(l, b)))
        for jc in (2, 3, 4, 431, 5, 6):
            for x in rng.uniform(0.2, 25, size=8):
                a = D.aintgs(torch.tensor([float(x)]), torch.tensor([jc]))[0, :7].tolist()
                l = drv.ask("aintgs", jc, f2b(x))
                if len(l) != 7:
                    out["bad_op"] += 1
                    continue
                out["aux_max_ulp"] = max(out["aux_max_ulp"], max(ulps(b2f(u), v) for u, v in zip(l, a)))
        qn_int = Constants().qn_int
        for method in methods:
            for a in elements:
                for b in elements:
                    if a < b:
                        continue
                    try:
                        mol = build_molecule(method, [a, b], [[0.0, 0.0, 0.0], [0.0, 0.0, 1.0]])
                    except Exception:  # noqa: BLE001
                        continue
                    if _skip_reason(mol):
                        continue
                    out["n_pairs"] += 1
                    zs, zp = mol.parameters["zeta_s"].tolist(), mol.parameters["zeta_p"].tolist()
                    n1, n2 = PQN[a], PQN[b]
                    for RA in distances:
                        R = RA / A0
                        with torch.no_grad():
                            di = D.diatom_overlap_matrix_PM6_SP(torch.tensor([a]), torch.tensor([b]), torch.tensor([[0.0, 0.0, 1.0]]), torch.tensor([R]),
                                                                torch.tensor([[zs[0], zp[0]]]), torch.tensor([[zs[1], zp[1]]]), qn_int)[0].numpy()
                        pk = [di[0, 0], di[3, 0], -di[0, 3], -di[3, 3], di[1, 1]]      # S111 S211 S121 S221 S222
                        l = drv.ask("sto_local", n1, n2, *[f2b(v) for v in (zs[0], zp[0], zs[1], zp[1], R)])
                        if len(l) != 5:
                            out["bad_op"] += 1
                            continue
                        lv = [b2f(t) for t in l]
                        keep = [True, a > 1, b > 1, b > 1, b > 1]      # entries the Python sets for this pair class
                        out["local_vs_package"] = max(out["local_vs_package"], max(abs(u - v) for u, v, k in zip(lv, pk, keep) if k))
                        combos = [(0, 0, 0, zs[0], zs[1])]
                        if a > 1:
                            combos.append((1, 0, 0, zp[0], zs[1]))
                        if b > 1:
                            combos += [(0, 1, 0, zs[0], zp[1]), (1, 1, 0, zp[0], zp[1]), (1, 1, 1, zp[0], zp[1])]
                        for (l1, l2, m, z1, z2) in combos:
                            t = drv.ask("sto_overlap", n1, l1, n2, l2, m, f2b(z1), f2b(z2), f2b(R))
                            if len(t) != 1 or t[0] == "bad-op":
                                out["bad_op"] += 1
                                continue
                            d = abs(b2f(t[0]) - sto_overlap_numeric(n1, l1, m, z1, n2, l2, m, z2, R))
                            key = "overlap_vs_oracle_series_regime" if 1e-6 < abs(0.5 * R * (z1 - z2)) <= 0.5 else "overlap_vs_oracle_exact_regime"
                            out[key] = max(out[key], d)
    finally:
        drv.close()
    out["ok"] = bool(out["bad_op"] == 0 and out["aux_max_ulp"] <= 4.5e5 and out["local_vs_package"] <= 1e-9 and out["overlap_vs_oracle_exact_regime"] <= 1e-9
                     and out["overlap_vs_oracle_series_regime"] <= BOUND_BSERIES_OVERLAP and out["n_pairs"] > 0)
    return out


CLASSES = ("1-1", "1-2", "2-2", "1-3", "2-3", "3-3", "tri")


def summarise(results: List[Dict[str, Any]]) -> Dict[Tuple[str, str], Dict[str, Any]]:
    table: Dict[Tuple[str, str], Dict[str, Any]] = {}
    keys = ("d_ovl_from_H", "d_res", "d_diag", "d_ghost", "d_ovl_xb", "d_ovl_from_H_xb", "d_res_xb", "d_diag_xb", "d_ovl_deprecated", "d_ovl_deprecated_xb")
    for r in results:
        if "skip" in r:
            continue
        t = table.setdefault((r["method"], r["cls"]), {"n": 0, "d_ovl": 0.0, "fail": 0, "fail_xb": 0, "unexplained": 0, "pairs": set(), "worst": None})
        t["n"] += 1
        for k in keys:
            if k in r:
                t[k] = max(t.get(k, 0.0), r[k])
        if r["d_ovl"] >= t["d_ovl"]:
            t["d_ovl"], t["worst"] = r["d_ovl"], {**(r["worst"] or {}), "R_A": r.get("R")}
        t["fail"] += 0 if r["ok"] else 1
        t["fail_xb"] += 0 if r.get("ok_xb", True) else 1
        t["unexplained"] += 0 if r.get("ok_modulo_bseries", r["ok"]) else 1
        if "z1" in r:
            t["pairs"].add((r["z1"], r["z2"]))
    return table


def print_table(results: List[Dict[str, Any]], file=sys.stdout) -> None:
    table = summarise(results)
    methods = sorted({m for (m, _) in table})
    has_dep = any("d_ovl_deprecated" in t for t in table.values())
    nan = float("nan")
    print("package as is: d_overlap, d_ovl(H/b) = overlap recovered from Hcore, d_Hres, d_Hdiag;  *_xb: package with converged B integrals (diagnostic)", file=file)
    print(f"{'method':6s} {'class':5s} {'cases':>5s} {'pairs':>5s} {'d_overlap':>10s} {'d_ovl(H/b)':>10s} {'d_Hres/eV':>10s} {'d_Hdiag/eV':>10s} {'ghost':>8s} | {'d_ovl_xb':>9s} {'d_Hres_xb':>9s}"
          + (f" | {'d_ovl_old':>9s} {'old_xb':>9s}" if has_dep else "") + "  worst overlap element (package as is)", file=file)
    for m in methods:
        for c in CLASSES:
            t = table.get((m, c))
            if not t:
                continue
            w = t["worst"] or {}
            wtxt = f"{w.get('pair')} {w.get('element')} R={w.get('R_bohr', nan):.3f} bohr pkg={w.get('package', nan):+.10f} ref={w.get('oracle', nan):+.10f}" if w else ""
            flag = ("  >TOL" if t["fail"] else "") + ("  UNEXPLAINED" if t["unexplained"] else "") + ("  XB-FAIL" if t["fail_xb"] else "")
            print(f"{m:6s} {c:5s} {t['n']:5d} {len(t['pairs']):5d} {t['d_ovl']:10.2e} {t['d_ovl_from_H']:10.2e} {t['d_res']:10.2e} {t['d_diag']:10.2e} {t['d_ghost']:8.1e} | {t.get('d_ovl_xb', nan):9.2e} {t.get('d_res_xb', nan):9.2e}"
                  + (f" | {t.get('d_ovl_deprecated', nan):9.2e} {t.get('d_ovl_deprecated_xb', nan):9.2e}" if has_dep else "") + f"  {wtxt}{flag}", file=file)
    skipped = sorted({(r["method"], r.get("z1"), r.get("z2")) for r in results if "skip" in r and "z1" in r})
    print(f"skipped (not parametrised / not constructible): {len(skipped)} (method, element pair) combinations", file=file)


QUICK = dict(elements=(1, 3, 6, 8, 9, 13, 16, 17), distances=(0.9, 2.3), ndir=1)


def main(argv: Optional[Sequence[str]] = None) -> int:
    import argparse

    ap = argparse.ArgumentParser(description="independent STO-overlap / Hcore oracle for PYSEQM (C06)")
    ap.add_argument("--quick", action="store_true", help="reduced sweep (default)")
    ap.add_argument("--full", action="store_true", help="all element pairs, 4 distances, 2 directions")
    ap.add_argument("--selftest", action="store_true", help="oracle self test only")
    ap.add_argument("--deprecated", action="store_true", help="also compare the deprecated diat_overlap.py routine (informational)")
    ap.add_argument("--modulo-bseries", action="store_true",
                    help="exit 0 also when the only excesses are explained by the package's truncated B-integral series "
                         "(they vanish to 1e-10 when converged B integrals are patched in, in-process)")
    ap.add_argument("--cone", action="store_true", help="also print the (known, F2) antipodal-cone probe; informational, does not affect the exit code")
    ap.add_argument("--lean", action="store_true", help="also tie the Lean model (driver ops aintgs/bintgs/sto_local/sto_overlap) to the package and to the oracle")
    ap.add_argument("--seed", type=int, default=0)
    a = ap.parse_args(argv)
    t0 = time.time()
    st = selftest(verbose=True, slow=a.selftest or a.full)
    st_ok = all(v <= (2e-8 if "bruteforce" in k else 1e-10) for k, v in st.items())
    print(f"oracle self test: {'ok' if st_ok else 'FAILED'}  ({time.time() - t0:.1f} s)")
    if a.selftest:
        return 0 if st_ok else 1
    t1 = time.time()
    if a.full:
        res = sweep(seed=a.seed, deprecated=a.deprecated)
    else:
        res = sweep(seed=a.seed, deprecated=a.deprecated, **QUICK)
    print_table(res)
    done = [r for r in res if "skip" not in r]
    bad = [r for r in done if not r["ok"]]
    unexplained = [r for r in done if not r["ok_modulo_bseries"]]
    print(f"{len(done)} cases; {len(bad)} beyond tolerance (overlap {TOL_OVERLAP:g}, Hcore {TOL_HCORE:g} eV), of which {len(unexplained)} NOT explained by the "
          f"truncated B series; with converged B integrals {sum(1 for r in done if not r['ok_xb'])} beyond ({TOL_XB_OVERLAP:g}, {TOL_XB_HCORE:g} eV); sweep {time.time() - t1:.1f} s")
    show = ("method", "z1", "z2", "species", "R", "direction", "d_ovl", "d_ovl_from_H", "d_res", "d_diag", "d_ghost", "conv_ok", "b_series", "d_ovl_xb", "d_res_xb", "worst")
    for r in (unexplained or bad)[:10]:
        print("  UNEXPLAINED:" if unexplained else "  beyond tolerance (explained):", {k: r[k] for k in show if k in r})
    lean_ok = True
    if a.lean:
        lc = lean_crosscheck(seed=a.seed)
        lean_ok = lc["ok"]
        print("  Lean model tie:", lc)
    if a.cone:
        r = cone_probe()
        print("  cone probe (informational, known finding F2): direction (-1, 3e-4, 0):", {k: r[k] for k in ("d_ovl", "d_res", "d_diag", "d_ovl_xb") if k in r})
    if a.modulo_bseries:
        return 0 if (st_ok and lean_ok and not unexplained) else 1
    return 0 if (st_ok and lean_ok and not bad) else 1


if __name__ == "__main__":
    sys.exit(main())
