"""Rational interval Lyapunov certificates for the k = 3 XL-BOMD error recurrence.

    /venv/bin/python -m vf.translate.lyap            # rewrites lean/PyseqmVerif/Proofs/LyapK3.lean
    /venv/bin/python -m vf.translate.lyap --check    # exit 1 if the committed file differs

The recurrence (published Niklasson scheme, k = 3, alpha = 3/20, c = [-2, 3, 0, -1]) at response
lam = 0.95 kappa (1 - Gamma):

    x_{n+1} = (2 - lam + alpha c0) x_n + (alpha c1 - 1) x_{n-1} + alpha c2 x_{n-2} + alpha c3 x_{n-3}

For a list of intervals [l_i, l_{i+1}] covering [1/50, 0.95 * 1.69 = 3211/2000] we produce a rational
symmetric Pi_i > 0 and a rational theta_i < 1 such that  theta_i Pi_i - C(lam)^T Pi_i C(lam)  is
positive definite at BOTH end points; each such fact is emitted as a Lean theorem whose proof is an
exact sum-of-squares identity (rational L D L^T factorisation, checked by `ring`) plus `positivity`.
Concavity in lam (hand-written Lean lemma `Lyap.interval_of_endpoints`) extends it to the interval.

Everything that reaches the Lean file is exact `fractions.Fraction` arithmetic; floating point
(numpy/scipy) is only used to *guess* Pi_i (discrete Lyapunov equation at the interval midpoint),
the guess is then rounded to rationals and verified exactly before it is emitted.  The search is
deterministic (no randomness; fixed candidate widths).
"""
from __future__ import annotations

import os
import sys
from fractions import Fraction as Fr

import numpy as np
import scipy.linalg as sl

K = 3
ALPHA = Fr(3, 20)
CS = [Fr(-2), Fr(3), Fr(0), Fr(-1)]
N = K + 1
LO = Fr(1, 50)
HI = Fr(3211, 2000)  # 0.95 * 1.69
WIDTHS = [Fr(1, 5), Fr(3, 20), Fr(1, 10), Fr(3, 40), Fr(1, 20), Fr(3, 80), Fr(1, 40), Fr(1, 50), Fr(3, 200),
          Fr(1, 100), Fr(3, 400), Fr(1, 200), Fr(1, 250), Fr(3, 1000), Fr(1, 400), Fr(1, 500), Fr(3, 2000), Fr(1, 1000),
          Fr(1, 2000), Fr(1, 4000), Fr(1, 10000)]
PI_DEN = 2000      # Pi entries are rounded to multiples of 1/PI_DEN after normalising the largest to ~1
OUT = os.path.join(os.path.dirname(os.path.dirname(os.path.dirname(os.path.abspath(__file__)))),
                   "lean", "PyseqmVerif", "Proofs", "LyapK3.lean")


def weights(lam):
    a = [ALPHA * c for c in CS]
    a[0] += 2 - lam
    a[1] -= 1
    return a


def comp(lam):
    C = [[Fr(0)] * N for _ in range(N)]
    C[0] = weights(lam)
    for i in range(1, N):
        C[i][i - 1] = Fr(1)
    return C


def fmat(A):
    return np.array([[float(x) for x in r] for r in A])


def mul(A, B):
    return [[sum(A[i][k] * B[k][j] for k in range(len(B))) for j in range(len(B[0]))] for i in range(len(A))]


def tr(A):
    return [list(r) for r in zip(*A)]


def ldl(M):
    """exact L D L^T with all pivots > 0, or None"""
    n = len(M)
    L = [[Fr(int(i == j)) for j in range(n)] for i in range(n)]
    d = [Fr(0)] * n
    for j in range(n):
        d[j] = M[j][j] - sum(L[j][k] ** 2 * d[k] for k in range(j))
        if d[j] <= 0:
            return None
        for i in range(j + 1, n):
            L[i][j] = (M[i][j] - sum(L[i][k] * L[j][k] * d[k] for k in range(j))) / d[j]
    return L, d


def ceil_to(x: float, den: int) -> Fr:
    import math
    return Fr(math.ceil(x * den), den)


def try_interval(l1: Fr, l2: Fr):
    """certificate dict for [l1, l2] or None"""
    Cm = fmat(comp((l1 + l2) / 2))
    rho = float(np.abs(np.linalg.eigvals(Cm)).max())
    if rho >= 1:
        return None
    for frac in (0.5, 0.25, 0.75):
        r = rho + frac * (1 - rho)
        Pf = sl.solve_discrete_lyapunov((Cm / r).T, np.eye(N))
        Pf = (Pf + Pf.T) / 2
        Pf = Pf / np.abs(Pf).max()
        for den in (PI_DEN, 10 * PI_DEN, 100 * PI_DEN):
            P = [[Fr(round(Pf[min(i, j)][max(i, j)] * den), den) for j in range(N)] for i in range(N)]
            theta = ceil_to(r * r, 10 ** 4)
            while theta < 1:
                ok = True
                certs = []
                for lam in (l1, l2):
                    C = comp(lam)
                    CtPC = mul(tr(C), mul(P, C))
                    M = [[theta * P[i][j] - CtPC[i][j] for j in range(N)] for i in range(N)]
                    res = ldl(M)
                    if res is None:
                        ok = False
                        break
                    certs.append(res)
                if ok:
                    break
                # one retry with theta half way to 1
                nt = ceil_to(float((theta + 1) / 2), 10 ** 4)
                if nt == theta or nt >= 1 or theta > ceil_to(r * r, 10 ** 4):
                    ok = False
                    break
                theta = nt
            if not ok or theta >= 1:
                continue
            mineig = float(np.linalg.eigvalsh(fmat(P)).min())
            if mineig <= 0:
                continue
            mu = Fr(max(int(mineig / 2 * 10 ** 6), 1), 10 ** 6)
            Pm = [[P[i][j] - (mu if i == j else 0) for j in range(N)] for i in range(N)]
            resP = ldl(Pm)
            if resP is None or P[0][0] < 0:
                continue
            return dict(lo=l1, hi=l2, P=P, theta=theta, mu=mu, certs=certs, pos=resP, rho=rho)
    return None


def search():
    out = []
    l1 = LO
    wi = 0
    while l1 < HI:
        found = None
        # start two widths wider than the last success
        start = max(0, wi - 2)
        for j in range(start, len(WIDTHS)):
            l2 = min(l1 + WIDTHS[j], HI)
            c = try_interval(l1, l2)
            if c is not None:
                found, wi = c, j
                break
        if found is None:
            raise RuntimeError(f"no certificate found starting at {l1}")
        out.append(found)
        l1 = found["hi"]
    return out


def q(x) -> str:
    x = Fr(x)
    if x.denominator == 1:
        return f"({x.numerator} : ℝ)"
    return f"({x.numerator}/{x.denominator} : ℝ)"


def qq(x) -> str:
    x = Fr(x)
    if x.denominator == 1:
        return f"({x.numerator} : ℚ)"
    return f"({x.numerator}/{x.denominator} : ℚ)"


X = ["x0", "x1", "x2", "x3"]
UP = [(0, 0), (0, 1), (0, 2), (0, 3), (1, 1), (1, 2), (1, 3), (2, 2), (2, 3), (3, 3)]


def sos(L, d):
    terms = []
    for j in range(N):
        inner = " + ".join(f"{q(L[i][j])}*{X[i]}" for i in range(j, N))
        terms.append(f"{q(d[j])}*({inner})^2")
    return " + ".join(terms)


def emit(certs) -> str:
    o = ["import PyseqmVerif.Proofs.LyapLemmas",
         "/-! GENERATED by vf/translate/lyap.py (deterministic, exact rational arithmetic): do not edit;",
         "    rerun `python -m vf.translate.lyap` to reproduce.",
         "",
         f"    {len(certs)} intervals covering lam ∈ [{LO}, {HI}] for the k = 3 recurrence",
         "    (alpha = 3/20, c = [-2, 3, 0, -1]).  For interval i: `V_i = xᵀΠx`, `cert_i_lo`, `cert_i_hi`:",
         "    `V_i (C(lam) x) ≤ theta_i V_i x` at the two end points (sum-of-squares identity from an exact",
         "    L D Lᵀ factorisation), `V_i_pos`: `mu_i |x|² ≤ V_i x`. -/",
         "namespace LyapK3", "open Lyap", ""]
    for i, c in enumerate(certs):
        P = c["P"]
        ps = " ".join(q(P[a][b]) for a, b in UP)
        o.append(f"/-- interval {i}: [{c['lo']}, {c['hi']}], theta = {c['theta']}, spectral radius at the midpoint ≈ {c['rho']:.6f} -/")
        o.append(f"noncomputable def V_{i} (x0 x1 x2 x3 : ℝ) : ℝ := Q {ps} x0 x1 x2 x3")
        for nm, lam, (L, d) in (("lo", c["lo"], c["certs"][0]), ("hi", c["hi"], c["certs"][1])):
            s = sos(L, d)
            o.append(f"theorem cert_{i}_{nm} (x0 x1 x2 x3 : ℝ) : V_{i} (next3 {q(lam)} x0 x1 x2 x3) x0 x1 x2 ≤ {q(c['theta'])} * V_{i} x0 x1 x2 x3 := by")
            o.append(f"  have h : {q(c['theta'])} * V_{i} x0 x1 x2 x3 - V_{i} (next3 {q(lam)} x0 x1 x2 x3) x0 x1 x2 = {s} := by")
            o.append(f"    unfold V_{i} Q next3; ring")
            o.append(f"  have : 0 ≤ {s} := by positivity")
            o.append("  linarith")
        L, d = c["pos"]
        s = sos(L, d)
        o.append(f"theorem V_{i}_pos (x0 x1 x2 x3 : ℝ) : {q(c['mu'])} * (x0^2 + x1^2 + x2^2 + x3^2) ≤ V_{i} x0 x1 x2 x3 := by")
        o.append(f"  have h : V_{i} x0 x1 x2 x3 - {q(c['mu'])} * (x0^2 + x1^2 + x2^2 + x3^2) = {s} := by")
        o.append(f"    unfold V_{i} Q; ring")
        o.append(f"  have : 0 ≤ {s} := by positivity")
        o.append("  linarith")
        fields = ", ".join(f"p{a}{b} := {q(P[a][b])}" for a, b in UP)
        o.append(f"noncomputable def raw_{i} : Raw := {{ lo := {qq(c['lo'])}, hi := {qq(c['hi'])}, loR := {q(c['lo'])}, hiR := {q(c['hi'])}, "
                 f"lo_cast := by norm_num, hi_cast := by norm_num, theta := {q(c['theta'])}, mu := {q(c['mu'])}, {fields}, "
                 f"theta_nonneg := by norm_num, theta_lt_one := by norm_num, mu_pos := by norm_num, p00_nonneg := by norm_num, "
                 f"pos := V_{i}_pos, cert_lo := cert_{i}_lo, cert_hi := cert_{i}_hi }}")
        o.append("")
    o.append("/-- all certificates, in order of increasing lam: `all = first :: rest` -/")
    o.append("noncomputable def first : Raw := raw_0")
    o.append("noncomputable def rest : List Raw := [" + ", ".join(f"raw_{i}" for i in range(1, len(certs))) + "]")
    o.append("noncomputable def all : List Raw := first :: rest")
    o.append("")
    o.append("end LyapK3")
    return "\n".join(o) + "\n"


def main(argv):
    certs = search()
    txt = emit(certs)
    if "--check" in argv:
        same = os.path.exists(OUT) and open(OUT).read() == txt
        print("LyapK3.lean", "reproduced" if same else "DIFFERS", f"({len(certs)} intervals)")
        return 0 if same else 1
    out = OUT
    for a in argv:
        if a.startswith("--out="):
            out = a[6:]
    with open(out, "w") as fh:
        fh.write(txt)
    print(f"wrote {out}: {len(certs)} intervals, {len(txt)} bytes")
    for c in certs:
        print(f"  [{float(c['lo']):.5f}, {float(c['hi']):.5f}] theta={c['theta']} rho={c['rho']:.6f}")
    return 0


if __name__ == "__main__":
    sys.exit(main(sys.argv[1:]))
