"""Python AST -> Lean for tiny pure integer functions (subset: if/return, + - * // %, comparisons,
and/or/not, min/max, bool and int parameters).  Integer semantics are Python's: `//` is floor
division (`Int.fdiv`), `%` is floor modulo (`Int.fmod`)."""
from __future__ import annotations

import ast
import inspect
import textwrap
from typing import Dict, List


class Untranslatable(Exception):
    pass


_RENAME: Dict[str, str] = {}


def _expr(e: ast.AST, bools: set) -> str:
    if _RENAME and not isinstance(e, ast.Constant):
        key = ast.unparse(e)
        if key in _RENAME:
            return _RENAME[key]
    if isinstance(e, ast.IfExp):
        return f"(if {_cond(e.test, bools)} then {_expr(e.body, bools)} else {_expr(e.orelse, bools)})"
    if isinstance(e, ast.Constant):
        if isinstance(e.value, bool):
            return "true" if e.value else "false"
        if isinstance(e.value, int):
            return f"({e.value} : Int)"
        raise Untranslatable(f"constant {e.value!r}")
    if isinstance(e, ast.Name):
        return e.id
    if isinstance(e, ast.BinOp):
        a, b = _expr(e.left, bools), _expr(e.right, bools)
        if isinstance(e.op, ast.Add):
            return f"({a} + {b})"
        if isinstance(e.op, ast.Sub):
            return f"({a} - {b})"
        if isinstance(e.op, ast.Mult):
            return f"({a} * {b})"
        if isinstance(e.op, ast.FloorDiv):
            return f"(Int.fdiv {a} {b})"
        if isinstance(e.op, ast.Mod):
            return f"(Int.fmod {a} {b})"
        raise Untranslatable(ast.dump(e.op))
    if isinstance(e, ast.UnaryOp) and isinstance(e.op, ast.USub):
        return f"(-{_expr(e.operand, bools)})"
    if isinstance(e, ast.Call) and isinstance(e.func, ast.Name) and e.func.id in ("min", "max") and len(e.args) == 2:
        return f"({e.func.id} {_expr(e.args[0], bools)} {_expr(e.args[1], bools)})"
    if isinstance(e, ast.Call) and isinstance(e.func, ast.Name) and e.func.id == "int" and len(e.args) == 1:
        return _expr(e.args[0], bools)
    raise Untranslatable(ast.dump(e))


def _cond(e: ast.AST, bools: set) -> str:
    if _RENAME and isinstance(e, ast.Compare) and len(e.ops) == 1 and isinstance(e.comparators[0], ast.Constant) and isinstance(e.comparators[0].value, str) \
            and isinstance(e.ops[0], (ast.Eq, ast.NotEq)):
        # a test against a string literal (`method == "PM6"`): the equality is a renamed Int flag, `!=` its negation
        key = f"{ast.unparse(e.left)} == {e.comparators[0].value!r}"
        if key in _RENAME:
            base = f"({_RENAME[key]} ≠ 0)"
            return base if isinstance(e.ops[0], ast.Eq) else f"(¬ {base})"
    if isinstance(e, ast.BinOp) and isinstance(e.op, (ast.BitAnd, ast.BitOr)):
        # element-wise tensor masks `(a > 1) & (a <= 12)`: per element these are the propositional connectives
        j = " ∧ " if isinstance(e.op, ast.BitAnd) else " ∨ "
        return "(" + _cond(e.left, bools) + j + _cond(e.right, bools) + ")"
    if isinstance(e, ast.Compare) and len(e.ops) == 1:
        a, b = _expr(e.left, bools), _expr(e.comparators[0], bools)
        op = {ast.Lt: "<", ast.LtE: "≤", ast.Gt: ">", ast.GtE: "≥", ast.Eq: "=", ast.NotEq: "≠"}.get(type(e.ops[0]))
        if op is None:
            raise Untranslatable(ast.dump(e))
        return f"({a} {op} {b})"
    if isinstance(e, ast.BoolOp):
        j = " ∧ " if isinstance(e.op, ast.And) else " ∨ "
        return "(" + j.join(_cond(v, bools) for v in e.values) + ")"
    if isinstance(e, ast.UnaryOp) and isinstance(e.op, ast.Not):
        return f"(¬ {_cond(e.operand, bools)})"
    if _RENAME and ast.unparse(e) in _RENAME:
        return f"({_RENAME[ast.unparse(e)]} ≠ 0)"
    if isinstance(e, ast.Name) and e.id in bools:
        return f"({e.id} = true)"
    if isinstance(e, ast.Name):  # int truthiness
        return f"({e.id} ≠ 0)"
    raise Untranslatable(ast.dump(e))


def _body(stmts: List[ast.stmt], bools: set) -> str:
    if not stmts:
        raise Untranslatable("fell off the end (implicit None)")
    s = stmts[0]
    if isinstance(s, ast.Expr) and isinstance(s.value, ast.Constant) and isinstance(s.value.value, str):
        return _body(stmts[1:], bools)  # docstring
    if isinstance(s, ast.Return):
        return _expr(s.value, bools)
    if isinstance(s, ast.If):
        then = _body(s.body, bools)
        rest = s.orelse if s.orelse else stmts[1:]
        # an `if` without return falling through is not supported
        return f"(if {_cond(s.test, bools)} then {then} else {_body(list(rest), bools)})"
    raise Untranslatable(ast.dump(s))


def translate_expression(expr: ast.AST, lean_name: str, rename: Dict[str, str]) -> str:
    """one expression of the source (e.g. the right-hand side of an assignment inside a method) as a Lean function of the renamed sub-expressions:
    `rename` maps source text (as printed by ast.unparse, e.g. 'self._data_every') to a Lean parameter name; every parameter is an Int"""
    global _RENAME
    _RENAME = dict(rename)
    try:
        body = _expr(expr, set())
    finally:
        _RENAME = {}
    params = " ".join(f"({v} : Int)" for v in dict.fromkeys(rename.values()))
    return f"def {lean_name} {params} : Int :=\n  {body}\n"


def translate_condition(test: ast.AST, lean_name: str, rename: Dict[str, str]) -> str:
    """the test of an `if` statement as a decidable Lean proposition over Int parameters (returned as Bool through `decide`)"""
    global _RENAME
    _RENAME = dict(rename)
    try:
        body = _cond(test, set())
    finally:
        _RENAME = {}
    params = " ".join(f"({v} : Int)" for v in dict.fromkeys(rename.values()))
    return f"def {lean_name} {params} : Bool :=\n  decide {body}\n"


def translate(func, lean_name: str) -> str:
    src = textwrap.dedent(inspect.getsource(func))
    tree = ast.parse(src)
    fd = tree.body[0]
    assert isinstance(fd, ast.FunctionDef)
    params = []
    bools = set()
    for a in fd.args.args:
        if a.arg in ("self", "cls"):
            continue
        ann = a.annotation.id if isinstance(a.annotation, ast.Name) else "int"
        if ann == "bool":
            bools.add(a.arg)
            params.append(f"({a.arg} : Bool)")
        else:
            params.append(f"({a.arg} : Int)")
    body = _body(fd.body, bools)
    return f"def {lean_name} {' '.join(params)} : Int :=\n  {body}\n"


def rat(x: float) -> str:
    """exact rational of a float64 as a Lean term usable at any DivisionRing / Rat"""
    from fractions import Fraction

    f = Fraction(float(x))
    if f.denominator == 1:
        return f"({f.numerator} : ℚ)" if f.numerator >= 0 else f"(({f.numerator}) : ℚ)"
    return f"(({f.numerator} : ℚ) / {f.denominator})"
