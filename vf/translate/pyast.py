"""Python AST -> Lean for tiny pure integer functions (subset: if/return, + - * // %, comparisons,
and/or/not, min/max, bool and int parameters).  Integer semantics are Python's: `//` is floor
division (`Int.fdiv`), `%` is floor modulo (`Int.fmod`)."""
from __future__ import annotations

import ast
import inspect
import textwrap
from typing import Dict, List


class Untranslatable(Exception):
    pass


_RENAME: Dict[str, str] = {}


def _expr(e: ast.AST, bools: set) -> str:
    if _RENAME and not isinstance(e, ast.Constant):
        key = ast.unparse(e)
        if key in _RENAME:
            return _RENAME[key]
    if isinstance(e, ast.IfExp):
        return f"(if {_cond(e.test, bools)} then {_expr(e.body, bools)} else {_expr(e.orelse, bools)})"
    if isinstance(e, ast.Constant):
        if isinstance(e.value, bool):
            return "true" if e.value else "false"
        if isinstance(e.value, int):
            return f"({e.value} : Int)"
        raise Untranslatable(f"constant {e.value!r}")
    if isinstance(e, ast.Name):
        return e.id
    if isinstance(e, ast.BinOp):
        a, b = _expr(e.left, bools), _expr(e.right, bools)
        if isinstance(e.op, ast.Add):
            return f"({a} + {b})"
        if isinstance(e.op, ast.Sub):
            return f"({a} - {b})"
        if isinstance(e.op, ast.Mult):
            return f"({a} * {b})"
        if isinstance(e.op, ast.FloorDiv):
            return f"(Int.fdiv {a} {b})"
        if isinstance(e.op, ast.Mod):
            return f"(Int.fmod {a} {b})"
        raise Untranslatable(ast.dump(e.op))
    if isinstance(e, ast.UnaryOp) and isinstance(e.op, ast.USub):
        return f"(-{_expr(e.operand, bools)})"
    if isinstance(e, ast.Call) and isinstance(e.func, ast.Name) and e.func.id in ("min", "max") and len(e.args) == 2:
        return f"({e.func.id} {_expr(e.args[0], bools)} {_expr(e.args[1], bools)})"
    if isinstance(e, ast.Call) and isinstance(e.func, ast.Name) and e.func.id == "int" and len(e.args) == 1:
        return _expr(e.args[0], bools)
    raise Untranslatable(ast.dump(e))


def _cond(e: ast.AST, bools: set) -> str:
    if _RENAME and isinstance(e, ast.Compare) and len(e.ops) == 1 and isinstance(e.comparators[0], ast.Constant) and isinstance(e.comparators[0].value, str) \
            and isinstance(e.ops[0], (ast.Eq, ast.NotEq)):
        # a test against a string literal (`method == "PM6"`): the equality is a renamed Int flag, `!=` its negation
        key = f"{ast.unparse(e.left)} == {e.comparators[0].value!r}"
        if key in _RENAME:
            base = f"({_RENAME[key]} ≠ 0)"
            return base if isinstance(e.ops[0], ast.Eq) else f"(¬ {base})"
    if isinstance(e, ast.BinOp) and isinstance(e.op, (ast.BitAnd, ast.BitOr)):
        # element-wise tensor masks `(a > 1) & (a <= 12)`: per element these are the propositional connectives
        j = " ∧ " if isinstance(e.op, ast.BitAnd) else " ∨ "
        return "(" + _cond(e.left, bools) + j + _cond(e.right, bools) + ")"
    if isinstance(e, ast.Compare) and len(e.ops) == 1:
        a, b = _expr(e.left, bools), _expr(e.comparators[0], bools)
        op = {ast.Lt: "<", ast.LtE: "≤", ast.Gt: ">", ast.GtE: "≥", ast.Eq: "=", ast.NotEq: "≠"}.get(type(e.ops[0]))
        if op is None:
            raise Untranslatable(ast.dump(e))
        return f"({a} {op} {b})"
    if isinstance(e, ast.BoolOp):
        j = " ∧ " if isinstance(e.op, ast.And) else " ∨ "
        return "(" + j.join(_cond(v, bools) for v in e.values) + ")"
    if isinstance(e, ast.UnaryOp) and isinstance(e.op, ast.Not):
        return f"(¬ {_cond(e.operand, bools)})"
    if _RENAME and ast.unparse(e) in _RENAME:
        return f"({_RENAME[ast.unparse(e)]} ≠ 0)"
    if isinstance(e, ast.Name) and e.id in bools:
        return f"({e.id} = true)"
    if isinstance(e, ast.Name):  # int truthiness
        return f"({e.id} ≠ 0)"
    raise Untranslatable(ast.dump(e))


def _body(stmts: List[ast.stmt], bools: set) -> str:
    if not stmts:
        raise Untranslatable("fell off the end (implicit None)")
    s = stmts[0]
    if isinstance(s, ast.Expr) and isinstance(s.value, ast.Constant) and isinstance(s.value.value, str):
        return _body(stmts[1:], bools)  # docstring
    if isinstance(s, ast.Return):
        return _expr(s.value, bools)
    if isinstance(s, ast.If):
        then = _body(s.body, bools)
        rest = s.orelse if s.orelse else stmts[1:]
        # an `if` without return falling through is not supported
        return f"(if {_cond(s.test, bools)} then {then} else {_body(list(rest), bools)})"
    raise Untranslatable(ast.dump(s))


def translate_expression(expr: ast.AST, lean_name: str, rename: Dict[str, str]) -> str:
    """one expression of the source (e.g. the right-hand side of an assignment inside a method) as a Lean function of the renamed sub-expressions:
    `rename` maps source text (as printed by ast.unparse, e.g. 'self._data_every') to a Lean parameter name; every parameter is an Int"""
    global _RENAME
    _RENAME = dict(rename)
    try:
        body = _expr(expr, set())
    finally:
        _RENAME = {}
    params = " ".join(f"({v} : Int)" for v in dict.fromkeys(rename.values()))
    return f"def {lean_name} {params} : Int :=\n  {body}\n"


def translate_condition(test: ast.AST, lean_name: str, rename: Dict[str, str]) -> str:
    """the test of an `if` statement as a decidable Lean proposition over Int parameters (returned as Bool through `decide`)"""
    global _RENAME
    _RENAME = dict(rename)
    try:
        body = _cond(test, set())
    finally:
        _RENAME = {}
    params = " ".join(f"({v} : Int)" for v in dict.fromkeys(rename.values()))
    return f"def {lean_name} {params} : Bool :=\n  decide {body}\n"


def translate(func, lean_name: str) -> str:
    src = textwrap.dedent(inspect.getsource(func))
    tree = ast.parse(src)
    fd = tree.body[0]
    assert isinstance(fd, ast.FunctionDef)
    params = []
    bools = set()
    for a in fd.args.args:
        if a.arg in ("self", "cls"):
            continue
        ann = a.annotation.id if isinstance(a.annotation, ast.Name) else "int"
        if ann == "bool":
            bools.add(a.arg)
            params.append(f"({a.arg} : Bool)")
        else:
            params.append(f"({a.arg} : Int)")
    body = _body(fd.body, bools)
    return f"def {lean_name} {' '.join(params)} : Int :=\n  {body}\n"


def rat(x: float) -> str:
    """exact rational of a float64 as a Lean term usable at any DivisionRing / Rat"""
    from fractions import Fraction

    f = Fraction(float(x))
    if f.denominator == 1:
        return f"({f.numerator} : ℚ)" if f.numerator >= 0 else f"(({f.numerator}) : ℚ)"
    return f"(({f.numerator} : ℚ) / {f.denominator})"


# ---------------------------------------------------------------------------------------------------------------------------------------
# straight-line REAL-valued code (scalar parts of numerical routines): `name = expr`, `if cond: return False`, over + - * /, unary minus,
# float literals, comparisons, and a small vocabulary of torch calls.  The result is a chain of `let`s; every number is an element of the
# scalar type `α` of the Lean model (literals through `OfScientific`, exactly as the hand-written models write them).

_CALLS = {"torch.sqrt": "sqrt", "torch.exp": "exp", "torch.expm1": "expm1", "math.sqrt": "sqrt", "math.exp": "exp", "torch.abs": "abs"}


def _rexpr(e: ast.AST, env: Dict[str, str]) -> str:
    key = ast.unparse(e)
    if key in env and not isinstance(e, ast.Constant):
        return env[key]
    if isinstance(e, ast.Constant) and isinstance(e.value, (int, float)) and not isinstance(e.value, bool):
        v = e.value
        if isinstance(v, int):
            return f"({v} : α)"
        txt = repr(float(v))
        return f"({txt} : α)"
    if isinstance(e, ast.BinOp) and isinstance(e.op, (ast.Add, ast.Sub, ast.Mult, ast.Div)):
        op = {ast.Add: "+", ast.Sub: "-", ast.Mult: "*", ast.Div: "/"}[type(e.op)]
        return f"({_rexpr(e.left, env)} {op} {_rexpr(e.right, env)})"
    if isinstance(e, ast.UnaryOp) and isinstance(e.op, ast.USub):
        return f"(-{_rexpr(e.operand, env)})"
    if isinstance(e, ast.BinOp) and isinstance(e.op, ast.Pow) and isinstance(e.right, ast.Constant) and e.right.value == 2:
        a = _rexpr(e.left, env)   # torch evaluates x**2 as x*x
        return f"({a} * {a})"
    if isinstance(e, ast.BinOp) and isinstance(e.op, ast.Pow) and ast.unparse(e.right) in ("1.5", "(1.5)"):
        return f"(pow15 {_rexpr(e.left, env)})"
    if isinstance(e, ast.BinOp) and isinstance(e.op, ast.Pow):
        # general power: a function parameter `pow base exponent`; an integer exponent is passed as the float it is converted to
        ex = e.right
        et = f"({float(ex.value)!r} : α)" if isinstance(ex, ast.Constant) and isinstance(ex.value, int) else _rexpr(ex, env)
        return f"(pow {_rexpr(e.left, env)} {et})"
    if isinstance(e, ast.Call):
        fn = ast.unparse(e.func)
        if fn in _CALLS and len(e.args) == 1:
            return f"({_CALLS[fn]} {_rexpr(e.args[0], env)})"
        if fn == "torch.where" and len(e.args) == 3:
            return f"(if {_rcond(e.args[0], env)} then {_rexpr(e.args[1], env)} else {_rexpr(e.args[2], env)})"
        if fn == "torch.ones_like" and len(e.args) == 1:
            return "(1 : α)"
        if fn == "torch.as_tensor" and e.args:
            return _rexpr(e.args[0], env)
    raise Untranslatable(f"real expression {key}")


def _rcond(e: ast.AST, env: Dict[str, str]) -> str:
    if isinstance(e, ast.Compare) and len(e.ops) == 1:
        op = {ast.Lt: "<", ast.LtE: "≤", ast.Gt: ">", ast.GtE: "≥"}.get(type(e.ops[0]))
        if op is None:
            raise Untranslatable(ast.dump(e))
        return f"({_rexpr(e.left, env)} {op} {_rexpr(e.comparators[0], env)})"
    raise Untranslatable(f"real condition {ast.unparse(e)}")


def mentions(e: ast.AST, names) -> bool:
    return any(isinstance(n, (ast.Name, ast.Attribute)) and ast.unparse(n) in names for n in ast.walk(e))


def translate_real_block(stmts: List[ast.stmt], env: Dict[str, str], result: str, reductions=("torch.sum",)) -> str:
    """`env`: source text -> Lean name of the inputs.  Assignments to plain names whose right-hand side is a reduction over tensors
    (`torch.sum(...)`) must already be in `env` (they are inputs of the scalar part) and are skipped; other assignments that mention a tracked name
    become `let`s; `if <cond on tracked names>: return False` becomes `if cond then none else`; statements that mention no tracked name are skipped
    (argument checks, dictionary look-ups); the block ends at `result`, the name whose value is returned as `some result`."""
    env = dict(env)
    lines: List[str] = []
    done = False

    def walk(body):
        nonlocal done
        for n in body:
            if done:
                return
            if isinstance(n, ast.Expr) and isinstance(n.value, ast.Constant):
                continue
            if isinstance(n, ast.With):
                walk(n.body)
                continue
            if isinstance(n, ast.Assign) and len(n.targets) == 1 and isinstance(n.targets[0], ast.Name):
                t = n.targets[0].id
                if any(ast.unparse(c.func) in reductions for c in ast.walk(n.value) if isinstance(c, ast.Call)):
                    if t not in env:
                        raise Untranslatable(f"reduction `{t}` is not a declared input")
                    continue
                if mentions(n.value, env.keys()) or t in env:
                    lines.append(f"let {t} := {_rexpr(n.value, env)}")
                    env[t] = t
                    if t == result:
                        done = True
                continue
            if isinstance(n, ast.If) and mentions(n.test, env.keys()):
                if len(n.body) == 1 and isinstance(n.body[0], ast.Return) and ast.unparse(n.body[0].value) in ("False", "None") and not n.orelse:
                    lines.append(f"if {_rcond(n.test, env)} then none else")
                    continue
                raise Untranslatable(f"branch on a tracked value: {ast.unparse(n)[:80]}")
            if any(mentions(n, [k]) for k in env.keys() if k.isidentifier()) and not isinstance(n, (ast.Return, ast.Expr)):
                # a tracked scalar used in some other statement before the result is reached (e.g. an in-place modification): refuse
                if isinstance(n, (ast.AugAssign, ast.For, ast.While)):
                    raise Untranslatable(f"statement on tracked values: {ast.unparse(n)[:80]}")
    walk(stmts)
    if not done:
        raise Untranslatable(f"result `{result}` is never assigned")
    return "\n  ".join(lines) + f"\n  some {result}"


# ---------------------------------------------------------------------------------------------------------------------------------------
# per-pair tensor programs (core-core repulsion and its derivative): every tensor has one entry per atom pair and every statement acts entry-wise,
# so the program is a scalar program for ONE pair.  Supported statements: `x = expr`, `x = torch.zeros_like(..)`, boolean masks built from
# comparisons of the integer inputs, masked assignment `x[m] = expr-with-[m]-operands` (-> `if m then … else x`), `x.add_(expr)`,
# `if method == …: return x` / if-elif chains on the method (one definition per branch).  Reductions over a second axis (`torch.sum(.., dim=1)`)
# must be declared inputs.

class PairProgram:
    def __init__(self, env: Dict[str, str], int_env: Dict[str, str], drop_methods=("unsqueeze", "reshape")):
        self.env = dict(env)          # source text -> Lean name (real inputs)
        self.inputs = set(env.keys())
        self.int_env = dict(int_env)  # source text -> Lean name (integer inputs)
        self.masks: Dict[str, str] = {}
        self.lines: List[str] = []
        self.drop_methods = drop_methods

    # -- expressions
    def rex(self, e: ast.AST, mask: str = None) -> str:
        key = ast.unparse(e)
        if key in self.env and not isinstance(e, ast.Constant):
            return self.env[key]
        if isinstance(e, ast.Subscript):
            sl = ast.unparse(e.slice)
            if mask is not None and sl == mask:
                return self.rex(e.value, mask)
            if sl in (":, None", "(:, None)"):
                return self.rex(e.value, mask)
        if isinstance(e, ast.Call) and isinstance(e.func, ast.Attribute) and e.func.attr in self.drop_methods:
            return self.rex(e.func.value, mask)
        if isinstance(e, ast.Constant) and isinstance(e.value, (int, float)) and not isinstance(e.value, bool):
            return f"({e.value if isinstance(e.value, int) else repr(float(e.value))} : α)"
        if isinstance(e, ast.BinOp) and isinstance(e.op, (ast.Add, ast.Sub, ast.Mult, ast.Div)):
            op = {ast.Add: "+", ast.Sub: "-", ast.Mult: "*", ast.Div: "/"}[type(e.op)]
            return f"({self.rex(e.left, mask)} {op} {self.rex(e.right, mask)})"
        if isinstance(e, ast.BinOp) and isinstance(e.op, ast.Pow) and isinstance(e.right, ast.Constant) and e.right.value == 2:
            a = self.rex(e.left, mask)
            return f"({a} * {a})"
        if isinstance(e, ast.UnaryOp) and isinstance(e.op, ast.USub):
            return f"(-{self.rex(e.operand, mask)})"
        if isinstance(e, ast.Call):
            fn = ast.unparse(e.func)
            if fn == "torch.exp" and len(e.args) == 1:
                return f"(exp {self.rex(e.args[0], mask)})"
            if fn == "torch.pow" and len(e.args) == 2 and ast.unparse(e.args[1]) == "-3":
                return f"(powNeg3 {self.rex(e.args[0], mask)})"
            if fn == "torch.zeros_like":
                return "(0 : α)"
        raise Untranslatable(f"pair expression {key}")

    def bex(self, e: ast.AST) -> str:
        key = ast.unparse(e)
        if key in self.masks:
            return self.masks[key]
        if isinstance(e, ast.UnaryOp) and isinstance(e.op, ast.Invert):
            return f"(!{self.bex(e.operand)})"
        if isinstance(e, ast.BinOp) and isinstance(e.op, (ast.BitAnd, ast.BitOr)):
            return f"({self.bex(e.left)} {'&&' if isinstance(e.op, ast.BitAnd) else '||'} {self.bex(e.right)})"
        if isinstance(e, ast.Compare) and len(e.ops) == 1 and isinstance(e.ops[0], (ast.Eq, ast.NotEq)) and ast.unparse(e.left) in self.int_env \
                and isinstance(e.comparators[0], ast.Constant) and isinstance(e.comparators[0].value, int):
            op = "=" if isinstance(e.ops[0], ast.Eq) else "≠"
            return f"(decide ({self.int_env[ast.unparse(e.left)]} {op} ({e.comparators[0].value} : Int)))"
        raise Untranslatable(f"mask expression {key}")

    def is_mask_expr(self, e: ast.AST) -> bool:
        return isinstance(e, ast.Compare) or (isinstance(e, ast.BinOp) and isinstance(e.op, (ast.BitAnd, ast.BitOr))) or \
            (isinstance(e, ast.UnaryOp) and isinstance(e.op, ast.Invert))

    # -- statements; returns False when the statement is irrelevant (touches nothing tracked)
    def stmt(self, n: ast.stmt) -> None:
        if isinstance(n, ast.Expr) and isinstance(n.value, ast.Constant):
            return
        if isinstance(n, ast.Assign) and len(n.targets) == 1:
            t, v = n.targets[0], n.value
            if isinstance(t, ast.Name):
                if t.id in self.inputs:
                    return   # declared input: its defining statement (a reduction, a gather) is outside the scalar program
                if ast.unparse(v) in self.env:
                    self.env[t.id] = self.env[ast.unparse(v)]
                    return
                if ast.unparse(v) in self.int_env:
                    self.int_env[t.id] = self.int_env[ast.unparse(v)]
                    return
                if self.is_mask_expr(v):
                    self.lines.append(f"let {t.id} : Bool := {self.bex(v)}")
                    self.masks[t.id] = t.id
                    return
                if any(isinstance(c, ast.Call) and ast.unparse(c.func) == "torch.sum" for c in ast.walk(v)):
                    if t.id not in self.env:
                        raise Untranslatable(f"reduction `{t.id}` is not a declared input")
                    return
                try:
                    rhs = self.rex(v)
                except Untranslatable:
                    if mentions(v, list(self.env.keys())) or any(isinstance(x, ast.Name) and x.id in self.env.values() for x in ast.walk(v)):
                        raise
                    return   # set-up that involves no tracked value (device, dtype, unrelated parameters)
                self.lines.append(f"let {t.id} := {rhs}")
                self.env[t.id] = t.id
                return
            if isinstance(t, ast.Subscript) and isinstance(t.value, ast.Name) and t.value.id in self.env:
                m = ast.unparse(t.slice)
                cond = self.bex(t.slice)
                name = t.value.id
                self.lines.append(f"let {name} := if {cond} then {self.rex(v, m)} else {self.env[name]}")
                self.env[name] = name
                return
            if isinstance(t, ast.Tuple):
                return   # `_, K, L, M = parameters`
            raise Untranslatable(f"assignment {ast.unparse(n)[:80]}")
        if isinstance(n, ast.Expr) and isinstance(n.value, ast.Call) and isinstance(n.value.func, ast.Attribute) and n.value.func.attr == "add_" \
                and isinstance(n.value.func.value, ast.Name) and n.value.func.value.id in self.env:
            name = n.value.func.value.id
            self.lines.append(f"let {name} := ({self.env[name]} + {self.rex(n.value.args[0])})")
            self.env[name] = name
            return
        raise Untranslatable(f"statement {ast.unparse(n)[:80]}")

    def body(self, result: str) -> str:
        return "\n  ".join(self.lines + [self.env[result]])
