"""Electronic-structure harness: build molecules/batches and run the REAL Electronic_Structure."""
from __future__ import annotations

import contextlib
import io
import sys
from typing import Any, Dict, List, Optional, Sequence

import numpy as np

from .core import REPO

if REPO not in sys.path:
    sys.path.insert(0, REPO)

import torch  # noqa: E402

torch.set_default_dtype(torch.float64)
torch.set_num_threads(1)

# ---------------------------------------------------------------------------
# geometries (Angstrom); species sorted non-increasing as the package requires
GEOMS: Dict[str, Any] = {
    "h2": ([1, 1], [[0.0, 0.0, 0.0], [0.74, 0.05, 0.02]]),
    "h2o": ([8, 1, 1], [[0.0, 0.0, 0.0], [0.9584, 0.02, 0.01], [-0.2400, 0.9270, -0.03]]),
    "nh3": ([7, 1, 1, 1], [[0.0, 0.0, 0.1], [0.94, 0.05, -0.28], [-0.45, 0.82, -0.25], [-0.48, -0.80, -0.30]]),
    "ch4": ([6, 1, 1, 1, 1], [[0.01, 0.0, 0.0], [0.63, 0.63, 0.63], [-0.63, -0.63, 0.63], [-0.63, 0.63, -0.63], [0.63, -0.63, -0.63]]),
    "ch2o": ([8, 6, 1, 1], [[1.21, 0.03, 0.0], [0.0, 0.0, 0.02], [-0.58, 0.94, 0.0], [-0.58, -0.94, 0.03]]),
    "hcn": ([7, 6, 1], [[1.16, 0.02, 0.0], [0.0, 0.0, 0.0], [-1.06, 0.01, 0.03]]),
    "co": ([8, 6], [[1.13, 0.04, 0.01], [0.0, 0.0, 0.0]]),
    "hf": ([9, 1], [[0.0, 0.0, 0.0], [0.92, 0.03, -0.02]]),
    "ch3cl": ([17, 6, 1, 1, 1], [[1.78, 0.02, 0.01], [0.0, 0.0, 0.0], [-0.36, 1.03, 0.02], [-0.36, -0.51, 0.89], [-0.36, -0.51, -0.89]]),
    "ch3f": ([9, 6, 1, 1, 1], [[1.38, 0.02, 0.01], [0.0, 0.0, 0.0], [-0.36, 1.03, 0.02], [-0.36, -0.51, 0.89], [-0.36, -0.51, -0.89]]),
    "h2s": ([16, 1, 1], [[0.0, 0.0, 0.0], [1.34, 0.03, 0.0], [-0.05, 1.34, 0.02]]),
    "so2": ([16, 8, 8], [[0.0, 0.0, 0.0], [1.43, 0.05, 0.02], [-0.70, 1.25, 0.0]]),
    "sih4": ([14, 1, 1, 1, 1], [[0.0, 0.0, 0.0], [0.85, 0.85, 0.85], [-0.85, -0.85, 0.85], [-0.85, 0.85, -0.85], [0.85, -0.85, -0.85]]),
    "ph3": ([15, 1, 1, 1], [[0.0, 0.0, 0.1], [1.19, 0.02, -0.67], [-0.60, 1.03, -0.67], [-0.60, -1.03, -0.66]]),
    "c2h4": ([6, 6, 1, 1, 1, 1], [[0.67, 0.0, 0.01], [-0.67, 0.02, 0.0], [1.23, 0.93, 0.0], [1.23, -0.93, 0.02], [-1.23, 0.93, 0.0], [-1.23, -0.93, -0.02]]),
    "oh-": ([8, 1], [[0.0, 0.0, 0.0], [0.96, 0.03, 0.02]]),
    "nh4+": ([7, 1, 1, 1, 1], [[0.0, 0.0, 0.0], [0.59, 0.59, 0.59], [-0.59, -0.59, 0.59], [-0.59, 0.59, -0.59], [0.59, -0.59, -0.59]]),
    "lih": ([3, 1], [[0.0, 0.0, 0.0], [1.60, 0.03, 0.02]]),
    "bh3": ([5, 1, 1, 1], [[0.0, 0.0, 0.0], [1.19, 0.02, 0.0], [-0.60, 1.03, 0.02], [-0.60, -1.03, 0.0]]),
    "alh3": ([13, 1, 1, 1], [[0.0, 0.0, 0.0], [1.58, 0.02, 0.0], [-0.79, 1.37, 0.02], [-0.79, -1.37, 0.0]]),
    "hcl": ([17, 1], [[0.0, 0.0, 0.0], [1.27, 0.03, 0.02]]),
    "no": ([8, 7], [[1.15, 0.02, 0.01], [0.0, 0.0, 0.0]]),       # doublet
    "oh": ([8, 1], [[0.0, 0.0, 0.0], [0.97, 0.03, 0.02]]),      # doublet
    "o2": ([8, 8], [[0.0, 0.0, 0.0], [1.21, 0.03, 0.02]]),      # triplet
    "n2": ([7, 7], [[0.0, 0.0, 0.0], [1.10, 0.03, 0.02]]),      # same atom count and sum of Z as CO
}
# two methane molecules 4.6 A apart (one input "molecule"): long-range pair terms (dispersion corrections) act between them
_m = GEOMS["ch4"][1]
GEOMS["ch4_h2o"] = ([8, 6, 1, 1, 1, 1, 1, 1], [[0.0, 0.0, 0.0], [4.1, 0.3, -0.2], [0.96, 0.0, 0.0], [-0.24, 0.93, 0.0], [4.73, 0.93, 0.43], [3.47, -0.33, 0.43], [3.47, 0.93, -0.83], [4.73, -0.33, -0.83]])   # CH4...H2O, 4 A apart
GEOMS["h2o_pair"] = ([8, 8, 1, 1, 1, 1], [[0.0, 0.0, 0.0], [3.9, 0.4, 0.3], [0.96, 0.0, 0.0], [-0.24, 0.93, 0.0], [4.86, 0.4, 0.3], [3.66, 1.33, 0.3]])   # water dimer, 4 A apart
GEOMS["h2_pair"] = ([1, 1, 1, 1], [[0.0, 0.0, 0.0], [0.0, 0.0, 0.70], [2.30, 0.0, 0.0], [2.30, 0.0, 0.70]])     # two parallel H2, contact just outside the dispersion switch (2.214 A)
GEOMS["ch4_dimer"] = ([6, 6] + [1] * 8, [_m[0], [_m[0][0] + 4.6, _m[0][1] + 0.3, _m[0][2] - 0.2]] + _m[1:] + [[a + 4.6, b + 0.3, c - 0.2] for a, b, c in _m[1:]])
# two waters 30 A apart (one input "molecule"): pairs beyond every short-range cut-off of the package (overlaps are cut at 40 bohr)
_w = GEOMS["h2o"][1]
GEOMS["h2o_far"] = ([8, 8, 1, 1, 1, 1], [_w[0], [_w[0][0] + 17.0, _w[0][1] + 20.0, _w[0][2] + 14.0]] + _w[1:] + [[a + 17.0, b + 20.0, c + 14.0] for a, b, c in _w[1:]])
GEOMS["h2o2+"] = GEOMS["h2o"]        # same species row as water, two electrons fewer (closed shell)
GEOMS["ch2o2+"] = GEOMS["ch2o"]
CHARGE = {"oh-": -1, "nh4+": 1, "h2o2+": 2, "ch2o2+": 2}
MULT = {"no": 2, "oh": 2, "o2": 3}


def geom(name: str):
    z, x = GEOMS[name]
    return list(z), np.array(x, dtype=float)


def batch(names: Sequence[str], pad_to: Optional[int] = None, pad_coord: float = 0.0, coords: Optional[List[np.ndarray]] = None):
    """zero-padded batch; padding slots get `pad_coord` in every component"""
    zs, xs = [], []
    for i, n in enumerate(names):
        z, x = geom(n)
        if coords is not None:
            x = np.array(coords[i], dtype=float)
        zs.append(z)
        xs.append(x)
    n = max(len(z) for z in zs)
    if pad_to:
        n = max(n, pad_to)
    sp = np.zeros((len(names), n), dtype=np.int64)
    xx = np.full((len(names), n, 3), float(pad_coord))
    for i, (z, x) in enumerate(zip(zs, xs)):
        sp[i, : len(z)] = z
        xx[i, : len(z)] = x
    ch = np.array([CHARGE.get(nm, 0) for nm in names], dtype=float)
    mu = np.array([MULT.get(nm, 1) for nm in names], dtype=float)
    return sp, xx, ch, mu


def settings(method="AM1", eps=1e-9, converger=None, sp2=None, uhf=False, analytical=None, excited=None, active_state=0, **kw) -> Dict[str, Any]:
    sp: Dict[str, Any] = {
        "method": method,
        "scf_eps": eps,
        "scf_converger": list(converger) if converger is not None else [1],
        "sp2": list(sp2) if sp2 is not None else [False],
        "UHF": bool(uhf),
    }
    if analytical is not None:
        sp["analytical_gradient"] = list(analytical)
    if excited is not None:
        sp["excited_states"] = dict(excited)
    if active_state:
        sp["active_state"] = active_state
    sp.update(kw)
    return sp


def run(species, coords, sp: Dict[str, Any], charges=None, mult=None, P0=None, learned=None, want_grad=False, quiet=True, active=None, es_kwargs=None) -> Dict[str, Any]:
    """One call of the real Electronic_Structure on a batch. `sp` is copied (the package mutates it)."""
    from seqm.ElectronicStructure import Electronic_Structure
    from seqm.Molecule import Molecule
    from seqm.seqm_functions.constants import Constants

    import copy as _copy

    sp = _copy.deepcopy(sp)
    species_t = torch.as_tensor(np.asarray(species), dtype=torch.int64)
    coords_t = torch.as_tensor(np.asarray(coords), dtype=torch.float64).clone()
    kw = {}
    if charges is not None:
        kw["charges"] = torch.as_tensor(np.asarray(charges), dtype=torch.float64)
    if mult is not None:
        kw["mult"] = torch.as_tensor(np.asarray(mult), dtype=torch.float64)
    cm = contextlib.redirect_stdout(io.StringIO()) if quiet else contextlib.nullcontext()
    with cm:
        mol = Molecule(Constants(), sp, coords_t, species_t, **kw)
        es = Electronic_Structure(sp)
        if active is not None:
            # per-molecule active surfaces (a tensor mixing ground and excited members of one batch)
            mol.active_state = torch.as_tensor(np.asarray(active), dtype=torch.int64)
        es(mol, P0=P0, **({"learned_parameters": learned} if learned is not None else {}), **(es_kwargs or {}))
    out = {
        "Etot": mol.Etot.detach().numpy().copy(),
        "Eelec": mol.Eelec.detach().numpy().copy(),
        "Enuc": mol.Enuc.detach().numpy().copy(),
        "Hf": mol.Hf.detach().numpy().copy(),
        "Eiso": mol.Eiso.detach().numpy().copy(),
        "force": mol.force.detach().numpy().copy() if torch.is_tensor(getattr(mol, "force", None)) else None,
        "q": mol.q.detach().numpy().copy() if mol.q is not None else None,
        "dipole": mol.dipole.detach().numpy().copy() if torch.is_tensor(mol.dipole) else None,
        "e_mo": mol.e_mo.detach().numpy().copy() if torch.is_tensor(mol.e_mo) else None,
        "e_gap": mol.e_gap.detach().numpy().copy() if torch.is_tensor(mol.e_gap) else None,
        "dm": mol.dm.detach().numpy().copy(),
        "notconverged": es.notconverged.detach().numpy().copy() if torch.is_tensor(es.notconverged) else np.array(es.notconverged),
        "nocc": mol.nocc.detach().numpy().copy(),
        "norb": mol.norb.detach().numpy().copy(),
        "cis_energies": mol.cis_energies.detach().numpy().copy() if torch.is_tensor(mol.cis_energies) else None,
        "_mol": mol, "_es": es,
    }
    return out


def _collect(mol, es) -> Dict[str, Any]:
    return {
        "Etot": mol.Etot.detach().numpy().copy(), "Eelec": mol.Eelec.detach().numpy().copy(), "Enuc": mol.Enuc.detach().numpy().copy(),
        "Hf": mol.Hf.detach().numpy().copy(), "Eiso": mol.Eiso.detach().numpy().copy(), "force": mol.force.detach().numpy().copy(),
        "q": mol.q.detach().numpy().copy() if mol.q is not None else None,
        "dipole": mol.dipole.detach().numpy().copy() if torch.is_tensor(mol.dipole) else None,
        "e_mo": mol.e_mo.detach().numpy().copy() if torch.is_tensor(mol.e_mo) else None,
        "e_gap": mol.e_gap.detach().numpy().copy() if torch.is_tensor(mol.e_gap) else None,
        "dm": mol.dm.detach().numpy().copy(),
        "notconverged": es.notconverged.detach().numpy().copy() if torch.is_tensor(es.notconverged) else np.array(es.notconverged),
        "nocc": mol.nocc.detach().numpy().copy(), "norb": mol.norb.detach().numpy().copy(),
        "cis_energies": mol.cis_energies.detach().numpy().copy() if torch.is_tensor(mol.cis_energies) else None,
    }


def run_sequence(species, coords_list, sp: Dict[str, Any], charges=None, mult=None) -> List[Dict[str, Any]]:
    """ONE Molecule object and ONE driver evaluated at a sequence of geometries (coordinates overwritten in place, as MD / optimisers / scans do)"""
    from seqm.ElectronicStructure import Electronic_Structure
    from seqm.Molecule import Molecule
    from seqm.seqm_functions.constants import Constants

    import copy as _copy

    sp = _copy.deepcopy(sp)
    kw = {}
    if charges is not None:
        kw["charges"] = torch.as_tensor(np.asarray(charges), dtype=torch.float64)
    if mult is not None:
        kw["mult"] = torch.as_tensor(np.asarray(mult), dtype=torch.float64)
    outs = []
    with contextlib.redirect_stdout(io.StringIO()):
        mol = Molecule(Constants(), sp, torch.as_tensor(np.asarray(coords_list[0]), dtype=torch.float64).clone(), torch.as_tensor(np.asarray(species), dtype=torch.int64), **kw)
        es = Electronic_Structure(sp)
        for i, x in enumerate(coords_list):
            if i:
                with torch.no_grad():
                    mol.coordinates.copy_(torch.as_tensor(np.asarray(x), dtype=torch.float64))
            es(mol)
            outs.append(_collect(mol, es))
    return outs


def run_named(names: Sequence[str], sp: Dict[str, Any], pad_to=None, pad_coord=0.0, coords=None, **kw) -> Dict[str, Any]:
    s, x, ch, mu = batch(names, pad_to=pad_to, pad_coord=pad_coord, coords=coords)
    uhf = bool(sp.get("UHF", False))
    return run(s, x, sp, charges=ch, mult=(mu if uhf else None), **kw)


# ---------------------------------------------------------------------------
def random_rotation(rng: np.random.Generator) -> np.ndarray:
    q = rng.normal(size=4)
    q /= np.linalg.norm(q)
    a, b, c, d = q
    return np.array([
        [a * a + b * b - c * c - d * d, 2 * (b * c - a * d), 2 * (b * d + a * c)],
        [2 * (b * c + a * d), a * a - b * b + c * c - d * d, 2 * (c * d - a * b)],
        [2 * (b * d - a * c), 2 * (c * d + a * b), a * a - b * b - c * c + d * d],
    ])


def rotation_taking(u: np.ndarray, v: np.ndarray) -> np.ndarray:
    """proper rotation R with R u = v (unit vectors)"""
    u = u / np.linalg.norm(u)
    v = v / np.linalg.norm(v)
    c = float(u @ v)
    if c > 1 - 1e-15:
        return np.eye(3)
    if c < -1 + 1e-15:
        # 180 degrees about any axis perpendicular to u
        p = np.cross(u, [1.0, 0, 0])
        if np.linalg.norm(p) < 1e-6:
            p = np.cross(u, [0, 1.0, 0])
        p /= np.linalg.norm(p)
        return 2 * np.outer(p, p) - np.eye(3)
    w = np.cross(u, v)
    K = np.array([[0, -w[2], w[1]], [w[2], 0, -w[0]], [-w[1], w[0], 0]])
    return np.eye(3) + K + K @ K / (1 + c)


def fd_directional(names, sp, x0: np.ndarray, direction: np.ndarray, h: float, mol_index=0, **kw) -> float:
    """central difference of Etot[mol_index] along `direction` (same shape as the batch coords)"""
    ep = run_named(names, sp, coords=list(x0 + h * direction), **kw)["Etot"][mol_index]
    em = run_named(names, sp, coords=list(x0 - h * direction), **kw)["Etot"][mol_index]
    return float((ep - em) / (2 * h))
